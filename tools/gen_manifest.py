#!/usr/bin/env python3
"""Regenerates /verif/MANIFEST.json from the table below (keeps it valid at all times)."""
import json
import os

HERE = os.path.dirname(os.path.dirname(os.path.abspath(__file__)))
props = [json.loads(l) for l in open(os.path.join(HERE, "properties.jsonl"))]

TRUST = ("Trusted: the extraction rules (DESIGN.md 3.2, D1-D10; what they drop is listed there), the assumed contracts of the "
         "nitro_rt stubs for libstdc++/libc (listed per run in evidence.trusted_base), CBMC 6.11 + goto-instrument DFCC + SAT back ends. "
         "Machine arithmetic is bit-precise (not mathematical). Not verified: the C++ compiler and libstdc++ themselves.")

CLAIMED = {
    "C06": dict(
        text=("Unbounded modular proof: all 47 members of fixed_vector<T> plus std::get are extracted from /repo on every run and each is "
              "verified against a contract (representation invariant size<=capacity over exactly capacity slots, raise-iff tables, failed "
              "single-element operations leave size and live elements unchanged, storage allocate/release counted by a ghost) with CBMC DFCC; "
              "capacity symbolic up to 2^40, loops closed by loop contracts, pointer/bounds checks on. A history lemma harness gives the "
              "induction step over operation sequences. One known finding (moved-from append) is reported as KNOWN-FINDING."),
        note=TRUST + " T := elem (opaque 64-bit value whose assignment may raise); behaviour that differs between instantiations (move-only T) is covered only through unique_ptr/stub assumptions.",
        ref="5 (C06), 7", technique="CBMC function contracts (DFCC) with loop invariants on mechanically extracted C"),
    "C17": dict(
        text=("Unbounded modular proof on abstract strings (lengths symbolic up to 2^40): split, starts_with, replace_all and both join overloads are "
              "extracted from /repo on every run and verified against contracts that transcribe the string laws: split cuts exactly at the "
              "left-to-right non-overlapping occurrences (one find per piece, each result the least match >= start, next start = match + |needle|), "
              "replace_all is a single pass in ORIGINAL coordinates whose finds never start inside rewritten text and whose loop has a decreasing "
              "measure (termination for every input), starts_with is the match predicate at position 0, join never writes a leading or doubled "
              "infix and removes only a trailing infix. Two known findings of join are reported as KNOWN-FINDING."),
        note=TRUST + " std::string::find/substr/replace, vector::emplace_back and stringstream are assumed contracts; the glue-back/count corollaries follow from the per-piece clauses by a paper argument (DESIGN.md 5, C17).",
        ref="5 (C17)", technique="CBMC function contracts (DFCC) over abstract strings with ghost find/edit logs and loop variants"),
    "C08": dict(
        text=("Unbounded modular proof: formatter::{ctor, operator%, args (both overloads as one index recursion), str, operator string}, operator<<, "
              "format()/_nf factories, make_exception (both), make_string are extracted from /repo on every run. str() is proved for symbolic format "
              "length (to 2^40), any number k of {} matches and n arguments: raises iff n != k; otherwise the output piece list is text-before-"
              "placeholder-i (verbatim slice of the format), argument i (whole, verbatim), ..., tail - with a loop invariant over (argument, placeholder, "
              "input). Arguments are pieces of args_ and never reach the regex iterator, which is constructed from format_ only. make_string's message "
              "is one piece per argument in order, streamed into a stream with default formatting state."),
        note=TRUST + " std::sregex_iterator over the literal \\{\\} is assumed to enumerate the left-to-right non-overlapping occurrences of {} (literal checked on every run); only Char = char is bound.",
        ref="5 (C08)", technique="CBMC function contracts (DFCC): piece-log postconditions, loop invariant, index recursion for parameter packs"),
    "C18": dict(
        text=("Modular proof over one arbitrary state: optional's copy constructor, value constructors, the three assignment operators (copy "
              "assignment also under the aliasing precondition other == this), operator bool and operator* are extracted and verified against "
              "ownership contracts (owns zero or one heap object shared with nobody; copies are fresh objects with equal value; assigning an empty "
              "optional empties the target; the replaced value is released exactly once, counted by a ghost; reading an empty one raises). "
              "quaint_ptr: make_quaint creates an object of type T with a deleter that destroys as T (the lambda is extracted), reset / move "
              "assignment (defaulted: synthesised; user-defined: extracted) / move construction destroy each object that loses its owner exactly "
              "once with its own type and leave moved-from / reset pointers empty. A history lemma gives the induction step for every sequence "
              "of reset / move / relocation operations over a pool of owners."),
        note=TRUST + " std::unique_ptr and std::function semantics are stub bodies (assumptions); std::vector relocation is assumed to be move-construct + destroy.",
        ref="5 (C18)", technique="CBMC function contracts (DFCC) with ghost ownership counters, aliasing variants and a history lemma"),
    "C19": dict(
        text=("Modular proof: both env::get overloads (exact value whenever the variable is set, also when empty; default only when unset; the "
              "no-default form raises iff unset), dl's two constructors with their extracted deleter lambdas (raise the dl exception carrying the "
              "loader's dlerror text iff dlopen fails, close nothing and leak nothing on that path, never pass NULL to dlclose), dl::load/get, "
              "symbol's constructor (dlerror cleared before dlsym and read after; raises iff the lookup failed; the symbol keeps a co-owning copy "
              "of the handle) and operator() (only while the library is mapped), dl::exception. A history lemma over the shared control block shows "
              "that copying adds an owner and closes nothing and that destroying owners in any order closes the library exactly once, after the last."),
        note=TRUST + " getenv, dlopen/dlsym/dlclose/dlerror and std::shared_ptr are assumed contracts / stub bodies; the real loader is not exercised by the proof (only by the native replay).",
        ref="5 (C19)", technique="CBMC function contracts (DFCC) with ghost loader state, extracted deleter lambdas and a reference-count history lemma"),
    "C16": dict(
        text=("Modular proof: the combiner is proved against the bit-vector formula and, on its extracted body, injective in the value for a fixed "
              "seed (a changed component changes the running hash) and order-sensitive (MUSTFAIL obligations refute 'hash(x,y) == hash(y,x) for all x,y' "
              "and 'hash(x,x) == 0 for all x'); hash_combine_tuple / hash_combine_variant are verified as index recursions (every component from I on "
              "is hashed exactly once in increasing order; exactly the active alternative), hash of tuple/pair/variant/unique_ptr/shared_ptr/std-hashable/"
              "hashable and hash_wrapper by contract, so the hash is a function of the member tuple and equal values hash equal given std::hash does. "
              "The six operators of tuple_operators return the same comparison of the member tuples; hash() hashes the whole member tuple."),
        note=TRUST + " std::hash respects == and std::tuple comparison is lexicographic are assumed; 'up to rare collisions' is statistical and not decided.",
        ref="5 (C16)", technique="CBMC function contracts (DFCC), bit-vector lemmas on the extracted combiner, index recursion for template recursion"),
    "C20": dict(
        text=("Modular proof over abstract positions: every member of enumerate_proxy / its iterator (constructor, both operator*, pre- and "
              "post-increment, operator!=, begin, end), detail::enumerate, the four enumerate overloads, reverse_proxy, detail::reverse and the five reverse "
              "overloads are extracted and verified by contract (begin is (first, 0); ++ advances position and index together; != compares positions; "
              "the lvalue overloads span the container in place, the rvalue overloads own it). Iteration lemmas closed by loop invariants show that a "
              "range-for over enumerate(c) and a hand-written *it++ loop visit positions 0..n-1 once each with index == position, and that reverse(c) "
              "visits n-1..0, for every n including 0. The iterator accessors of fixed_vector (a listed container kind) are verified with it."),
        note=TRUST + " Aliasing of lvalue ranges and lifetime of temporaries follow from declared member types, which are read from the source and reported as static facts, not obligations; std::reverse_iterator is a stub.",
        ref="5 (C20)", technique="CBMC function contracts (DFCC) over abstract iterator positions with loop-invariant iteration lemmas"),
    "C05": dict(
        text=("Modular proof: smart_stream (constructor, move constructor, destructor, record, sstr, operator bool), the four operator<< overloads, "
              "logger::{will_log, log, trace..fatal}, set_tag/set_severity/set_timestamp, severity_filter and the and/or/not combinators (each proved for "
              "arbitrary sub-filter results, hence any filter expression), sequence::sink with lang::tuple_foreach/for_each (evaluation order of the pack "
              "expansion is modelled), and the compile-time gate are extracted and verified by contract. Statement lemmas (base, step for an arbitrary "
              "number i of items already streamed, final) give by induction: exactly one record reaches formatter and sink iff the filter accepts, "
              "with the statement's severity and tag and a message equal to the streamed items in order, in both syntactic forms; moved-from "
              "temporaries emit nothing. The enum order and the gate `severity >= minimum` are checked for all 36 pairs."),
        note=TRUST + " Formatter/Sink/Filter base classes, std::stringstream and unique_ptr are stubs; the C++ rule that temporaries die at the end of the full expression is encoded in the lemma harness; 'records of one thread arrive in program order' follows from sequential execution of destructors and is not a separate obligation.",
        ref="5 (C05)", technique="CBMC function contracts (DFCC) with ghost call counters and induction-step statement lemmas"),
    "C10": dict(
        text=("Same unit as C05, clauses on lazy evaluation: null_stream's operator<< overloads have empty frames (they call nothing and store nothing), "
              "the callable overloads call the callable exactly once iff the stream is live and never otherwise (ghost call counter), a stream rejected "
              "by the runtime filter owns nothing so no formatter/sink/callable call can follow (step and final lemmas), and the compile-time gate maps "
              "severities below the minimum to null_stream (the mapping true->smart_stream / false->null_stream is read from the source)."),
        note=TRUST + " Which overload a callable selects (is_callable SFINAE) is a compile-time fact not verified by CBMC.",
        ref="5 (C10)", technique="CBMC function contracts (DFCC): empty-frame contracts and ghost call counters"),
    "C09": dict(
        category="other",
        text=("Contract-based verification is sequential, so interleavings are NOT explored. What is proved, for both thread-safe sinks: the lock "
              "discipline from which the property follows by the mutex axiom - sink() takes the mutex returned by the accessor (the same object on "
              "every call: the harness obtains it before the call), every write and the flush happen while it is held (preconditions of the stream "
              "stubs), exactly one write per record, and the mutex is released on return (lock_guard / unique_lock scopes are extracted with their "
              "scope ends). With std::mutex giving mutual exclusion, writes of distinct calls cannot interleave; with C05, one record is one call."),
        note="ASSUMED, not checked: std::mutex provides mutual exclusion; function-local statics are initialised thread-safely; the memory model. " + TRUST,
        ref="5 (C09), 6", technique="CBMC function contracts (DFCC): sequential proof of lock discipline; schedules by assumption"),
    "C07": dict(
        text=("Same functions as C06, abstract-view postconditions: appends add at the end, erase removes one element and shifts the tail, "
              "positional emplace inserts before pos, copy yields equal elements on independent storage, move/assignment transfer the whole "
              "sequence, stated with ghost witness indices (proved for an arbitrary index = for all). Iteration lemmas (forward and reverse, "
              "closed by loop invariants) show begin..end / rbegin..rend visit exactly the live elements in order / reverse order."),
        note=TRUST + " std::reverse_iterator semantics (base-1 dereference) is a stub.",
        ref="5 (C07)", technique="CBMC function contracts (DFCC) with ghost-witness postconditions and iteration lemmas"),
}

NA = {}
OPT_BASE = ("Options unit: user_input (constructor and all 14 members), base::matches, toggle/option/multi_option {matches, update_value, prepare, check, "
            "parse_env_value, ...}, both try_parse_as_option instantiations, try_parse_as_toggle, prepare_options, validate_options, check_parser_consistency, "
            "parse(vector) as prologue / one execution of the token-loop body / epilogue, parse(argc, argv), arguments::get(int)/operator[], the declaration "
            "functions of group and parser::has_option_with_name/get_all_* and short_name() are extracted from /repo on every run and verified by contract "
            "over abstract strings (interned text identity, symbolic length to 2^20, first three bytes, position of the first '=', per-letter counts for a "
            "table of 4 symbolic letters). ")
OPT_NOTE = (TRUST + " Bounds: K=2 declared entities per kind (loops over the declaration maps are unwound completely with unwinding assertions, so this is a bound on "
            "the declaration, not on the proof of each function), 4 distinct letters per token, argument vectors of <=3 tokens inside parse(argc, argv); the token "
            "loop of parse(vector) is NOT bounded: its body is verified once for an arbitrary loop-carried state (induction step), the fold over tokens is the "
            "paper induction of DESIGN.md 5. Iterator position is fixed to 0 in the step (assumption A-shift: the code uses it, it + 1 and end only). "
            "std::regex_match with the token pattern, std::string/map/multiset/getline, nitro::env::get are assumed contracts. Three known findings are reported as KNOWN-FINDING.")
OPT_TECH = "CBMC function contracts (DFCC) on mechanically extracted C; loop body as a function with a by-value reference step function; case-split jobs; second contracts per call site"
CLAIMED.update({
    "C01": dict(text=OPT_BASE + "C01: the step contract compares the real loop body with a reference step function written from the property text: on success every token "
                "is classified (positional verbatim, --, option+value, toggles) and has exactly that effect; a bundle is accepted only if the per-letter counts of declared "
                "toggles add up to the number of letters; unknown names/letters and an option letter inside a bundle raise the user-input error.",
                note=OPT_NOTE, ref="5 (C01)", technique=OPT_TECH),
    "C02": dict(text=OPT_BASE + "C02: each spelling (--name value, --name=value, -s value, -s=value, repeated/bundled letters, inline or after --) is one case of the reference "
                "step function; the value is the text identity after the FIRST '=' or the next token verbatim; multi-option values and positionals are appended at the end "
                "(ghost witness index = any index). Typed access (as<T>) is std::stringstream extraction and is not verified.",
                note=OPT_NOTE + " Byte-for-byte delivery is identity of the abstract text; that std::string::substr copies bytes is assumed.", ref="5 (C02)", technique=OPT_TECH),
    "C03": dict(text=OPT_BASE + "C03: check() of option, multi_option and toggle is verified against the decision table command line > non-empty environment value > default > "
                "(optional: absent | required: user-input error); environment values are stored verbatim (multi: the pieces between ';' in order), dirty/provided is set exactly "
                "for command line and environment; the epilogue contract lifts this to every declared entity and to the provided set.",
                note=OPT_NOTE, ref="5 (C03)", technique=OPT_TECH),
    "C04": dict(text=OPT_BASE + "C04: every contract in the chain has the two-sided clause 'raises iff <documented condition>' and 'only EXC_PARSING_ERROR' for user input; developer-error "
                "guards (name() of a value token etc.) are preconditions that every call site is proved to satisfy, so parser_error cannot escape from parse() of a consistent parser; "
                "CBMC's pointer/bounds/overflow checks are on for all extracted code (no out-of-bounds read); termination of parse is by the for-loop over the vector (not a CBMC obligation).",
                note=OPT_NOTE + " 'never crashes or hangs' covers the extracted code only; libstdc++ regex is outside.", ref="5 (C04)", technique=OPT_TECH),
    "C11": dict(text=OPT_BASE + "C11: toggle::update_value / matches / check / parse_env_value: each long spelling adds one, each occurrence of the letter in a short token adds one (multiset count), "
                "--no-<name> only for reversible toggles and yields 0, both polarities in either order raise, the 15 truthy and 15 falsy environment words are fixed in the contract "
                "and every other word raises. Known finding toggle_named_no.", note=OPT_NOTE, ref="5 (C11)", technique=OPT_TECH),
    "C12": dict(text=OPT_BASE + "C12: the positional branch of the step (value tokens and every token in positional mode are appended verbatim, -- and greedy mode switch the mode, the accepted "
                "count is enforced before appending), parse(argc, argv) (every word but argv[0], in order), arguments::get(int)/operator[] (index -k is position size-k; anything else "
                "is out_of_range). Known finding malformed_dash_in_positional_part.", note=OPT_NOTE, ref="5 (C12)", technique=OPT_TECH),
    "C13": dict(text=OPT_BASE + "C13: group::option/multi_option/toggle preserve 'the name is held by at most one map over all groups and kinds', return the identical object for the same "
                "name+kind+group, raise the developer error for any other re-declaration, append new objects to order_ exactly once; has_option_with_name is true iff any group holds "
                "the name in any kind; short_name() accepts exactly one character and never changes a set letter; check_parser_consistency raises iff two declared entities share a letter. "
                "Known finding parser_move_stale_backref.", note=OPT_NOTE + " G=2 groups (the one declared into and one other); std::map is modelled for the one key being declared.", ref="5 (C13)", technique=OPT_TECH),
    "C14": dict(text=OPT_BASE + "C14: prepare() of option/multi_option/toggle and prepare_options reset value, list, count and dirty flag of every declared entity; the prologue contract gives "
                "a start state that does not depend on the entry state (mode false, no positionals, all entities reset) and its frame excludes the declarations; positionals and "
                "provided are locals of parse(). Hence the result is a function of declaration, vector and environment.", note=OPT_NOTE, ref="5 (C14)", technique=OPT_TECH),
})
CLAIMED["C15"] = dict(
    text=("Partial, clause by clause. PROVED (unbounded number of words, symbolic word lengths < 2^20, any 0 <= left_pad <= max_width <= 4096): io::terminal::format_padded writes every "
          "word of split(text, ' ') exactly once and in order, and no line grows beyond max_width unless a word on it is longer than a whole line (max_width - left_pad) - loop invariant "
          "relating the `space` counter to the stream column, monitor inside the stream model; group::usage prints nothing for an empty group and otherwise formats every entry of order_ "
          "exactly once, in order (loop invariant); group::option/multi_option/toggle append a new option to order_ exactly once and never on a re-declaration (shared with C13). "
          "NOT DECIDED by this check: the content of one option's block (short and long spelling, placeholder, environment hint, default: base::format, nitro::format, lang::join), the "
          "synopsis line of parser::usage, group creation order in parser::usage, and stream independence of usage()/base::format (both build their text in local stringstreams; the "
          "defect that made the synopsis depend on the target stream was repaired by fix d00e886 and is demonstrated natively, not proved)."),
    note=TRUST + " std::ostream is a model (formatting width, column, position; operator<<(char/string), setw, endl, tellp as the standard says); format_padded is verified for a stream that holds no line break yet "
         "(position == column), which is what both call sites pass after fix d00e886; text of < 1024 words (keeps the int counter `space` in range). lang::split / replace_all by their C17 contracts.",
    ref="5 (C15), 10", technique="CBMC function contracts (DFCC) with a loop invariant over an abstract output stream that monitors line width and word order")

NOT_YET = "check not built yet in this round (see DESIGN.md section 9 for the plan); no claim is made"


def main():
    checks, na = [], []
    for p in props:
        pid = p["id"]
        if pid in CLAIMED:
            c = CLAIMED[pid]
            checks.append({
                "property_id": pid,
                "quick_cmd": "./check %s --tier quick" % pid,
                "thorough_cmd": "./check %s --tier thorough" % pid,
                "evidence_file": "/verif/evidence/%s.json" % pid,
                "replay_cmd_template": "./check %s --replay {path}" % pid,
                "engine": "cbmc-dfcc",
                "level_claimed": {"category": c.get("category", "proof"), "text": c["text"], "design_ref": c["ref"]},
                "level_note": c["note"],
                "technique": c["technique"],
            })
        else:
            na.append({"property_id": pid, "reason": NA.get(pid, NOT_YET)})
    m = {
        "version": 1,
        "setup_cmd": "python3 -c 'import json,sys' && cbmc --version >/dev/null && goto-instrument --version >/dev/null && g++ --version >/dev/null",
        "hooks": {
            "guard": "NITRO_VERIF",
            "enable": "no hooks in /repo: contracts are sidecars in /verif/units/*/contracts.h on C text extracted from /repo on every run",
            "baseline_off_cmd": "cmake -G Ninja -S /repo -B /repo/_build -DCMAKE_BUILD_TYPE=RelWithDebInfo && cmake --build /repo/_build && ctest --test-dir /repo/_build -j8 --timeout 900",
            "source_commits": [],
            "add_only": True,
        },
        "engines": [{"name": "cbmc-dfcc", "path": "/verif/vf", "serves_properties": sorted(CLAIMED),
                     "kind_free_text": "extract C from /repo -> sidecar contracts -> goto-instrument --dfcc per function -> cbmc; native replay of counterexamples"}],
        "checks": checks,
        "not_applicable": na,
        "notes": "Exit codes of ./check: 0 all obligations discharged (KNOWN-FINDING lines possible), 1 VIOLATION, 2 UNDECIDED (extraction broke / timeout / tool error; never a verdict). Genuine defects repaired in /repo are listed in known_findings.json under 'fixed'.",
    }
    json.dump(m, open(os.path.join(HERE, "MANIFEST.json"), "w"), indent=1)
    print("checks:", [c["property_id"] for c in checks], "not_applicable:", len(na))


if __name__ == "__main__":
    main()
