#!/usr/bin/env python3
"""tools/run_seeds.py [id-prefix ...]  — applies every stored seeded change to /repo (tools/try_seed.sh: apply, check, always undo,
evidence restored), records what the property's quick check said in seeded/<id>/meta.json and prints a table.
Never run two instances at once (they share /repo's working tree)."""
import json
import os
import re
import subprocess
import sys

VERIF = os.path.dirname(os.path.dirname(os.path.abspath(__file__)))


def main():
    want = sys.argv[1:]
    rows = []
    for sid in sorted(os.listdir(os.path.join(VERIF, "seeded"))):
        d = os.path.join(VERIF, "seeded", sid)
        if sid.startswith("_") or not os.path.exists(os.path.join(d, "patch.diff")):
            continue
        if want and not any(sid.startswith(w) for w in want):
            continue
        prop = sid.split("_")[0]
        p = subprocess.run([os.path.join(VERIF, "tools", "try_seed.sh"), os.path.join(d, "patch.diff"), prop],
                           stdout=subprocess.PIPE, stderr=subprocess.STDOUT, text=True)
        lines = [l for l in p.stdout.splitlines() if re.match(r"^(VIOLATION|UNDECIDED|OK |KNOWN-FINDING|  failed obligations|exit=|PATCH)", l)]
        out = "\n".join(l[:500] for l in lines)
        caught = any(l.startswith("VIOLATION") for l in lines)
        undecided = any(l.startswith("UNDECIDED") for l in lines)
        mp = os.path.join(d, "meta.json")
        m = json.load(open(mp)) if os.path.exists(mp) else {"id": sid, "breaks_property": prop}
        m["detected_by"] = "./check %s --tier quick: %s" % (prop, "VIOLATION" if caught else ("UNDECIDED (exit 2) - NOT detected" if undecided else "NOT detected (exit 0)"))
        m["reproduced_on_real_code"] = bool(caught and any(l.startswith("VIOLATION") and "no-failing-input-found" not in l for l in lines))
        m["check_output"] = out[:2000]
        json.dump(m, open(mp, "w"), indent=1)
        ob = re.findall(r"failed obligations of ([^:]+): (.*)", out)
        rows.append((sid, "caught" if caught else ("undecided" if undecided else "MISSED"), m["reproduced_on_real_code"], (ob[0][0] + ": " + ob[0][1][:140]) if ob else ""))
        print("%-6s %-9s replayed=%-5s %s" % rows[-1], flush=True)
    st = subprocess.run(["git", "-C", "/repo", "status", "--short", "--untracked-files=no"], stdout=subprocess.PIPE, text=True).stdout
    if st.strip():
        print("WARNING: /repo is not clean:\n" + st)


if __name__ == "__main__":
    main()
