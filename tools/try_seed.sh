#!/bin/sh
# tools/try_seed.sh <patch.diff> <property> [extra check args]   — apply, run the check, always undo
patch=$1; prop=$2; shift 2
cd /repo || exit 3
git diff --quiet || { echo "repo dirty"; exit 3; }
git apply "$patch" || { echo "PATCH DOES NOT APPLY"; exit 3; }
cd /verif && ./check "$prop" "$@"; rc=$?
git -C /repo checkout -- .
echo "exit=$rc"
