#!/bin/sh
# tools/try_seed.sh <patch.diff> <property> [extra check args]   — apply, run the check, always undo.
# The evidence file of the property is saved and restored: committed evidence must come from the unchanged tree.
patch=$1; prop=$2; shift 2
cd /repo || exit 3
git diff --quiet || { echo "repo dirty"; exit 3; }
git apply "$patch" || { echo "PATCH DOES NOT APPLY"; exit 3; }
cd /verif
[ -f evidence/$prop.json ] && cp evidence/$prop.json /tmp/evidence_$prop.bak
./check "$prop" "$@"; rc=$?
git -C /repo checkout -- .
[ -f /tmp/evidence_$prop.bak ] && mv /tmp/evidence_$prop.bak evidence/$prop.json
echo "exit=$rc"
