#!/usr/bin/env python3
"""tools/confirm_seed.py <seed-id> <property> [--needs "..."]
Confirms a seeded change in a scratch worktree of /repo HEAD: the patch applies, the library builds,
the test-suite result is identical to the unchanged tree, the demonstration passes without and fails with
the change.  Writes seeded/<id>/meta.json.  The worktree is removed afterwards."""
import json
import os
import re
import shutil
import subprocess
import sys

VERIF = os.path.dirname(os.path.dirname(os.path.abspath(__file__)))


def sh(cmd, cwd=None, timeout=1800):
    p = subprocess.run(cmd, shell=True, cwd=cwd, stdout=subprocess.PIPE, stderr=subprocess.STDOUT, text=True, timeout=timeout)
    return p.returncode, p.stdout


def tests(wt):
    rc, out = sh("cmake -G Ninja -B _build -DCMAKE_BUILD_TYPE=RelWithDebInfo >/dev/null 2>&1 && cmake --build _build -j16 2>&1 | tail -3", cwd=wt)
    if rc != 0 or "error" in out.lower():
        return None, out
    res = {}
    bdir = os.path.join(wt, "_build", "tests")
    for exe in sorted(os.listdir(bdir)):
        p = os.path.join(bdir, exe)
        if exe.startswith("Nitro.") and os.access(p, os.X_OK) and os.path.isfile(p):
            rc, out = sh("%s 2>&1 | tail -3" % p, cwd=bdir, timeout=600)
            m = re.search(r"(All tests passed \(.*?\)|test cases:.*)", out)
            res[exe] = m.group(1) if m else out.strip()[-200:]
    return res, ""


def demo(wt, sdir):
    exe = os.path.join(wt, "_demo")
    head = open(os.path.join(sdir, "demo.cpp")).read(600)
    m = re.search(r"-DBUILD_LIB demo\.cpp -o (\S+)", head)
    if m:   # the demo doubles as its own test library
        sh("g++ -std=c++17 -shared -fPIC -DBUILD_LIB %s/demo.cpp -o %s/%s" % (sdir, wt, m.group(1)))
    rc, out = sh("g++ -std=c++17 -I%s/include %s/demo.cpp %s/_build/libnitro-options.a %s/_build/libnitro-env.a -ldl -pthread -o %s" % (wt, sdir, wt, wt, exe))
    if rc != 0:
        return None, out[-1500:]
    rc, out = sh("timeout 120 " + exe, cwd=wt)
    return rc, out[-800:]


def main():
    sid, prop = sys.argv[1], sys.argv[2]
    needs = ""
    if "--needs" in sys.argv:
        needs = sys.argv[sys.argv.index("--needs") + 1]
    sdir = os.path.join(VERIF, "seeded", sid)
    wt = "/tmp/wt_confirm_" + sid
    sh("git -C /repo worktree remove --force %s; rm -rf %s" % (wt, wt))
    rc, out = sh("git -C /repo worktree add --detach %s HEAD" % wt)
    meta = {"id": sid, "breaks_property": prop, "base_commit": sh("git -C /repo rev-parse --short HEAD")[1].strip()}
    try:
        base, err = tests(wt)
        d0 = demo(wt, sdir)
        rc, out = sh("git apply %s/patch.diff" % sdir, cwd=wt)
        meta["patch_applies"] = rc == 0
        if rc != 0:
            meta["error"] = out
        else:
            mut, err = tests(wt)
            d1 = demo(wt, sdir)
            meta.update({
                "compiles_with_change": mut is not None,
                "tests_identical_to_unchanged_tree": mut == base,
                "tests_unchanged_tree": base, "tests_with_change": mut if mut != base else "identical",
                "demo_without_change": {"exit": d0[0], "output": d0[1][-300:]},
                "demo_with_change": {"exit": d1[0], "output": d1[1][-500:]},
            })
            meta["confirmed"] = bool(mut is not None and mut == base and d0[0] == 0 and d1[0] not in (0, None))
    finally:
        sh("git -C /repo worktree remove --force %s; rm -rf %s" % (wt, wt))
    notes = os.path.join(sdir, "notes.txt")
    meta["needs_to_manifest"] = needs or (open(notes).read().strip()[:1200] if os.path.exists(notes) else "")
    meta["what_was_run"] = ("scratch worktree of /repo HEAD: cmake+ninja build, every tests/Nitro.* binary run and its summary compared with "
                            "the unchanged tree; demo.cpp compiled against the worktree and run without and with patch.diff")
    old = {}
    mp = os.path.join(sdir, "meta.json")
    if os.path.exists(mp):
        old = json.load(open(mp))
    for k in ("detected_by", "check_output"):
        if k in old:
            meta[k] = old[k]
    json.dump(meta, open(mp, "w"), indent=1)
    print(sid, "confirmed" if meta.get("confirmed") else "NOT CONFIRMED", json.dumps({k: meta.get(k) for k in ("patch_applies", "compiles_with_change", "tests_identical_to_unchanged_tree")}),
          "demo:", meta.get("demo_without_change", {}).get("exit"), "->", meta.get("demo_with_change", {}).get("exit"))


if __name__ == "__main__":
    main()
