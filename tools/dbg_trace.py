#!/usr/bin/env python3
"""tools/dbg_trace.py <file.2.gb> <property> <regex>  — print user-level trace assignments whose lhs matches regex"""
import json, re, subprocess, sys
gb, prop, rx = sys.argv[1], sys.argv[2], re.compile(sys.argv[3])
out = subprocess.run(["cbmc", gb, "--object-bits", "12", "--no-pointer-primitive-check", "--sat-solver", "cadical",
                      "--property", prop, "--trace", "--json-ui"], stdout=subprocess.PIPE, text=True).stdout
for item in json.loads(out):
    if "result" in item:
        for r in item["result"]:
            if "trace" in r:
                for st in r["trace"]:
                    if st.get("stepType") == "assignment" and rx.search(str(st.get("lhs", ""))):
                        loc = st.get("sourceLocation", {})
                        v = st.get("value", {})
                        print("%s:%s  %s = %s" % (loc.get("function", ""), loc.get("line", ""), st["lhs"], v.get("data", v.get("name"))))
