/* Contracts for the format unit (C08): positional, verbatim substitution with exact arity; exception message =
 * concatenation of the stream representations of the arguments. */
#ifndef FORMAT_CONTRACTS_H
#define FORMAT_CONTRACTS_H
#include "nitro_rt.h"
#include "nitro_str.h"
#include "nitro_fmt.h"
#include "kf_gen.h"
#include "enf_gen.h"
#define NITRO_UNIT_GLOBALS NITRO_STR_GLOBALS NITRO_FMT_GLOBALS
#define NITRO_HAVOC_UNIT NITRO_STR_HAVOC NITRO_FMT_HAVOC

struct formatter { struct nstr format_; struct nargs args_; };
#define FMT_OBJ(p) __CPROVER_is_fresh(p, sizeof(*(p)))
/* object parameter of a function that is also called on parts of larger objects: fresh when enforced, readable/writable when replaced */
#define FMT_OBJ_OR_OK(fn, p) ((NITRO_ENF_##fn && FMT_OBJ(p)) || (!NITRO_ENF_##fn && __CPROVER_rw_ok(p, sizeof(*(p)))))
#define FMT_OBJ_OR_ROK(fn, p) ((NITRO_ENF_##fn && FMT_OBJ(p)) || (!NITRO_ENF_##fn && __CPROVER_r_ok(p, sizeof(*(p)))))
#define FMT_REC(fn, a, b, c) (!NITRO_ENF_##fn || (g_in[0] == (size_t)(a) && g_in[1] == (size_t)(b) && g_in[2] == (size_t)(c)))
#define FMT_MAXARGS (((size_t)1) << 39)
#define FMT_SAME_FORMAT(s) ((s)->format_.len == __CPROVER_old((s)->format_.len) && (s)->format_.off == __CPROVER_old((s)->format_.off))
#define FMT_W_UNCHANGED(s) ((s)->args_.w.id == __CPROVER_old((s)->args_.w.id) && (s)->args_.w.pieces == __CPROVER_old((s)->args_.w.pieces))

void fmt_ctor(struct formatter *self, const struct nstr *format)
__CPROVER_requires(nitro_exc == 0 && FMT_OBJ(self) && FMT_OBJ(format))
__CPROVER_assigns(*self)
__CPROVER_ensures(nitro_exc == 0 && self->format_.len == format->len && self->format_.off == format->off)   /*@ holds_the_format_string */
__CPROVER_ensures(self->args_.count == 0);                                                                  /*@ no_arguments_yet */

/* operator%: one more argument; it is the stream representation of arg, one piece, at the end */
struct formatter *fmt_percent(struct formatter *self, const struct nval *arg)
__CPROVER_requires(nitro_exc == 0 && FMT_OBJ_OR_OK(fmt_percent, self) && FMT_OBJ_OR_ROK(fmt_percent, arg) && self->args_.count < FMT_MAXARGS)
__CPROVER_assigns(self->args_)
__CPROVER_ensures(nitro_exc == 0 && __CPROVER_return_value == self)
__CPROVER_ensures(self->args_.count == __CPROVER_old(self->args_.count) + 1)                                 /*@ one_argument_appended */
__CPROVER_ensures(__CPROVER_old(self->args_.count) == g_w ==> (self->args_.w.id == arg->id && self->args_.w.pieces == 1))  /*@ it_is_the_stream_representation_of_arg */
__CPROVER_ensures(__CPROVER_old(self->args_.count) != g_w ==> FMT_W_UNCHANGED(self));                        /*@ earlier_arguments_unchanged */

/* args(a...): one % per pack element, in order */
struct formatter *fmt_args(struct formatter *self, const struct nval *pack, size_t i, size_t n)
/* recursive: the objects are allocated by the harness (is_fresh cannot be re-asserted at the recursive call) */
__CPROVER_requires(nitro_exc == 0 && __CPROVER_w_ok(self, sizeof(*self)) && i <= n && n <= 64 && self->args_.count < FMT_MAXARGS && self->args_.count + (n - i) < FMT_MAXARGS)
__CPROVER_requires(__CPROVER_r_ok(pack, (n == 0 ? 1 : n) * sizeof(struct nval)))
__CPROVER_assigns(self->args_)
__CPROVER_ensures(nitro_exc == 0 && __CPROVER_return_value == self)
__CPROVER_ensures(self->args_.count == __CPROVER_old(self->args_.count) + (n - i))                           /*@ one_argument_per_pack_element */
__CPROVER_ensures((g_w >= __CPROVER_old(self->args_.count) && g_w - __CPROVER_old(self->args_.count) < n - i) ==>
      (self->args_.w.pieces == 1 && self->args_.w.id == pack[i + (g_w - __CPROVER_old(self->args_.count))].id))   /*@ in_pack_order */
__CPROVER_ensures(g_w < __CPROVER_old(self->args_.count) ==> FMT_W_UNCHANGED(self));

/* str(): with k placeholders (matches) and n arguments */
#define FMT_N (self->args_.count)
#define FMT_IN_W ((g_w == 0) ? (size_t)0 : g_rx_p0 + 2)
#define FMT_STR_POST(result) \
__CPROVER_ensures((FMT_N != g_rx_count) == (nitro_exc != 0))                                      /*@ raises_iff_arity_differs */ \
__CPROVER_ensures(nitro_exc == 0 || nitro_exc == EXC_NITRO) \
__CPROVER_ensures(nitro_exc == 0 ==> result->count == 2 * FMT_N + 1)                               /*@ text_arg_text_arg_..._text */ \
__CPROVER_ensures((nitro_exc == 0 && g_w < FMT_N && g_ow == 2 * g_w) ==> \
      (result->w_kind == PK_SLICE && result->w_a == FMT_IN_W && result->w_b == g_rx_p1))            /*@ text_before_placeholder_i_verbatim */ \
__CPROVER_ensures((nitro_exc == 0 && g_w < FMT_N && g_ow == 2 * g_w + 1) ==> \
      (result->w_kind == PK_ARG && result->w_a == g_w))                                             /*@ placeholder_i_replaced_by_argument_i */ \
__CPROVER_ensures((nitro_exc == 0 && g_w == FMT_N && g_ow == 2 * g_w) ==> \
      (result->w_kind == PK_SLICE && result->w_a == FMT_IN_W && result->w_b == self->format_.len))   /*@ text_after_last_placeholder_verbatim */

void fmt_str(struct nout *result, const struct formatter *self)
__CPROVER_requires(nitro_exc == 0 && FMT_OBJ(result) && FMT_OBJ(self) && self->args_.count <= FMT_MAXARGS)
__CPROVER_requires(NRX_WF(self->format_.len) && g_rx_w + 1 == g_w)
__CPROVER_requires(FMT_REC(fmt_str, self->format_.len, self->args_.count, g_rx_count))
__CPROVER_assigns(*result, nitro_exc, g_rx_lastidx, g_rx_lastpos)
FMT_STR_POST(result);

#define NITRO_LOOP_fmt_str_1 \
  __CPROVER_assigns(it, placeholder, input, *result, g_rx_lastidx, g_rx_lastpos) \
  __CPROVER_loop_invariant(nitro_exc == 0 && it <= self->args_.count && placeholder == it && it <= g_rx_count && result->count == 2 * it) \
  __CPROVER_loop_invariant(it == 0 ==> (input == 0 && g_rx_lastidx == NITRO_NPOS)) \
  __CPROVER_loop_invariant(it > 0 ==> (g_rx_lastidx == it - 1 && input == g_rx_lastpos + 2 && g_rx_lastpos <= g_rx_len - 2 && g_rx_len >= 2)) \
  __CPROVER_loop_invariant((it > 0 && g_rx_w == it - 1) ==> g_rx_lastpos == g_rx_p0) \
  __CPROVER_loop_invariant((g_w < it && g_ow == 2 * g_w) ==> (result->w_kind == PK_SLICE && result->w_a == FMT_IN_W && result->w_b == g_rx_p1)) \
  __CPROVER_loop_invariant((g_w < it && g_ow == 2 * g_w + 1) ==> (result->w_kind == PK_ARG && result->w_a == g_w)) \
  __CPROVER_decreases(self->args_.count - it)

void fmt_to_string(struct nout *result, const struct formatter *self)
__CPROVER_requires(nitro_exc == 0 && FMT_OBJ(result) && FMT_OBJ(self) && self->args_.count <= FMT_MAXARGS)
__CPROVER_requires(NRX_WF(self->format_.len) && g_rx_w + 1 == g_w)
__CPROVER_assigns(*result, nitro_exc, g_rx_lastidx, g_rx_lastpos)
FMT_STR_POST(result);

void fmt_stream_out(struct nout *s, const struct formatter *f)
__CPROVER_requires(nitro_exc == 0 && FMT_OBJ(s) && FMT_OBJ(f) && f->args_.count <= FMT_MAXARGS)
__CPROVER_requires(NRX_WF(f->format_.len) && g_rx_w + 1 == g_w)
__CPROVER_assigns(*s, nitro_exc, g_rx_lastidx, g_rx_lastpos)
__CPROVER_ensures((f->args_.count != g_rx_count) == (nitro_exc != 0))                              /*@ raises_iff_arity_differs */
__CPROVER_ensures(nitro_exc == 0 ==> s->count == 2 * f->args_.count + 1)
__CPROVER_ensures((nitro_exc == 0 && g_w < f->args_.count && g_ow == 2 * g_w + 1) ==> (s->w_kind == PK_ARG && s->w_a == g_w));  /*@ placeholder_i_replaced_by_argument_i */

#define FMT_FACTORY(name) \
void name(struct formatter *ret, const struct nstr *format_str) \
__CPROVER_requires(nitro_exc == 0 && FMT_OBJ(ret) && FMT_OBJ(format_str)) \
__CPROVER_assigns(*ret) \
__CPROVER_ensures(nitro_exc == 0 && ret->format_.len == format_str->len && ret->format_.off == format_str->off && ret->args_.count == 0)  /*@ formatter_over_that_string */
FMT_FACTORY(fmt_format_string);
FMT_FACTORY(fmt_format_cstr);
FMT_FACTORY(fmt_literal_nf);

/* make_exception: streams pack[i..n) in order */
void exc_make(struct nout *msg, const struct nval *pack, size_t i, size_t n)
__CPROVER_requires(nitro_exc == 0 && __CPROVER_w_ok(msg, sizeof(*msg)) && msg->default_fmt && i < n && n <= 64 && msg->count < FMT_MAXARGS && msg->count + (n - i) < FMT_MAXARGS)
__CPROVER_requires(__CPROVER_r_ok(pack, n * sizeof(struct nval)))
__CPROVER_assigns(*msg)
__CPROVER_ensures(nitro_exc == 0 && msg->count == __CPROVER_old(msg->count) + (n - i))             /*@ one_piece_per_argument */
__CPROVER_ensures((g_ow >= __CPROVER_old(msg->count) && g_ow - __CPROVER_old(msg->count) < n - i) ==>
      (msg->w_kind == PK_VAL && msg->w_a == pack[i + (g_ow - __CPROVER_old(msg->count))].id))      /*@ in_argument_order */
__CPROVER_ensures(g_ow < __CPROVER_old(msg->count) ==> (msg->w_kind == __CPROVER_old(msg->w_kind) && msg->w_a == __CPROVER_old(msg->w_a)));

/* make_string: the message is the concatenation, in order, of the stream representations of the arguments */
void exc_make_string(struct nout *ret, const struct nval *pack, size_t n)
__CPROVER_requires(nitro_exc == 0 && FMT_OBJ(ret) && n >= 1 && n <= 64 && __CPROVER_is_fresh(pack, n * sizeof(struct nval)))
__CPROVER_assigns(*ret)
__CPROVER_ensures(nitro_exc == 0 && ret->count == n)                                               /*@ one_piece_per_argument */
__CPROVER_ensures(g_ow < n ==> (ret->w_kind == PK_VAL && ret->w_a == pack[g_ow].id));              /*@ message_is_the_concatenation_in_order */
#endif
