"""format unit: nitro::detail::formatter (format.hpp), except::detail::make_exception / make_string, exception, raise.
Binding (D1): Char := char; T, Arg := nval (a value with a stream representation); parameter packs become
(array, index, count) with the two overloads/specialisations as the two branches of one index recursion."""
import re
from vf.extract import Rule, CallRule, ExtractionError
from vf.unit import Unit, F, Lemma

FMT = "include/nitro/format/format.hpp"
EXC = "include/nitro/except/exception.hpp"
RAISE = "include/nitro/except/raise.hpp"
P = ["C08"]
CLS = r"class\s+formatter\b"


def build(src):
    class IterName:
        """the local iterator over args_ is called `it` in the loop contract: a differently named one is renamed (the name of a local carries no meaning)"""
        name = "D3.local-name"

        def apply(self, text):
            m = re.search(r"(?:auto|__auto_type) (\w+) = args_\.begin\(\)", text)
            if not m or m.group(1) == "it":
                return text, 1 if m else 0
            if re.search(r"\bit\b", text):
                raise ExtractionError("fmt_str: cannot rename the iterator %s to `it`: the name is taken" % m.group(1))
            return re.sub(r"\b%s\b" % re.escape(m.group(1)), "it", text), 1
    u = Unit("format", src)
    u.members["fmt"] = src.members(FMT, CLS)
    if [m[1] for m in u.members["fmt"]] != ["format_", "args_"]:
        raise ExtractionError("formatter data members changed: %r" % (u.members["fmt"],))

    def minit(ty, name, expr):
        if name == "format_":
            return "self->format_ = *(%s);" % expr
        if name == "args_":
            if expr is not None:
                raise ExtractionError("args_ has an initialiser")
            return "self->args_.count = 0; self->args_.w.id = 0; self->args_.w.pieces = 0;   /* default-constructed vector */"
        raise ExtractionError("unknown member " + name)
    u.member_init["fmt"] = minit

    members = Rule("D3.members", r"(?<![\w.>])(format_|args_)\b", r"self->\1")
    common = [
        CallRule("D3.std-forward", r"std::forward<[^>]*>\(", lambda m, a: "%s" % a[0]),
        CallRule("D4.raise", r"(?<![\w:])raise\(", lambda m, a: "NITRO_THROW(EXC_NITRO)"),
        Rule("D2.auto", r"\bauto\b", "__auto_type"),
    ]
    u.rules = common
    W = CLS
    sf = "struct formatter *self"
    csf = "const struct formatter *self"
    u.add(F("fmt_ctor", FMT, r"formatter\(const string_type& format\)", "void fmt_ctor(%s, const struct nstr *format)" % sf, P, within=W, ctor="fmt"))
    u.add(F("fmt_percent", FMT, r"self& operator%\(T&& arg\)", "struct formatter *fmt_percent(%s, const struct nval *arg)" % sf, P, within=W, dflt="0", ret_ref=True,
            rules=[Rule("D7.stream-decl", r"stream_type\s+str;", "struct nout str; nout_init(&str);"),
                   Rule("D6.stream-insert", r"\bstr\s*<<\s*([^;]+);", r"nout_append_val(&str, \1);"),
                   Rule("D7.stream-str", r"\bstr\.str\(\)", "nout_text(&str)"),
                   CallRule("D7.vector-emplace_back", r"\bargs_\.emplace_back\(", lambda m, a: "nargs_emplace_back(&args_, %s)" % a[0]),
                   Rule("D3.this", r"\*this\b", "(*self)"), members],
            must_fire=["D7.stream-decl", "D6.stream-insert", "D7.vector-emplace_back"]))
    # args(Arg&&, Args&&...) and args(): one index recursion (D1)
    rec = src.find(FMT, r"self& args\(Arg&& arg, Args&&\.\.\. args\)", within=W)
    base = src.find(FMT, r"self& args\(\)", within=W)

    class ArgsBody:
        name = "D1.pack-recursion"

        def apply(self, text):
            r = rec["body"]
            r = re.sub(r"\(\*this\)\s*%\s*std::forward<Arg>\(arg\);", "fmt_percent(self, &pack[i]);", r)
            r, n = re.subn(r"this->args\(std::forward<Args>\(args\)\.\.\.\);", "fmt_args(self, pack, i + 1, n);", r)
            if n != 1 or "fmt_percent" not in r:
                raise ExtractionError("args(Arg, Args...) no longer has the shape `(*this) % arg; this->args(rest...)`")
            b = base["body"]
            return "\n    if (i == n)\n    {%s}\n    else\n    {%s}\n" % (b, r), 1
    u.add(F("fmt_args", FMT, r"self& args\(\)", "struct formatter *fmt_args(%s, const struct nval *pack, size_t i, size_t n)" % sf, P, within=W, dflt="0", ret_ref=True, rec=True,
            pre=[ArgsBody()], rules=[Rule("D3.this", r"\*this\b", "(*self)")],
            harness="""void h_fmt_args(void)
{
    struct formatter *self = malloc(sizeof(*self)); size_t i, n;
    __CPROVER_assume(self != 0 && n <= 64);
    struct nval *pack = malloc((n == 0 ? 1 : n) * sizeof(struct nval));
    __CPROVER_assume(pack != 0);
    NITRO_HAVOC;
    fmt_args(self, pack, i, n);
    NITRO_CANARIES;
}
""",
            note="two overloads rendered as the two branches of an index recursion"))
    u.add(F("fmt_str", FMT, r"string_type str\(\) const", "void fmt_str(struct nout *result, %s)" % csf, P, within=W,
            rules=[Rule("D3.rvo-local", r"string_type\s+result;", "nout_init(result);"),
                   Rule("D3.rvo-return", r"return\s+result;", "return;"),
                   Rule("D7.regex-literal", r'std::regex\s+r\("\\\\\{\\\\\}"\);', "/* std::regex r: the literal \\{\\} */"),
                   Rule("D7.regex-begin", r"std::sregex_iterator\(format_\.begin\(\),\s*format_\.end\(\),\s*r\)", "nrx_begin(&format_)"),
                   Rule("D7.regex-end", r"std::sregex_iterator\(\)", "nrx_end()"),
                   Rule("D7.match-position", r"\bplaceholder->position\(\)", "nrx_position(placeholder)"),
                   Rule("D7.match-length", r"\bplaceholder->length\(\)", "nrx_length(placeholder)"),
                   Rule("D7.arg-range", r"\bresult\.append\(it->begin\(\),\s*it->end\(\)\)", "nout_append_arg(result, it)"),
                   CallRule("D7.append-range", r"\bresult\.append\(", lambda m, a: "nout_append_slice(result, %s, %s)" % (a[0], a[1])),
                   Rule("D7.vector-empty", r"\bargs_\.empty\(\)", "(args_.count == 0)"),
                   Rule("D7.vector-size", r"\bargs_\.size\(\)", "args_.count"),
                   Rule("D3.rvo-return-format", r"return\s+format_;", "{ nout_init(result); nout_append_slice(result, 0, format_.len); return; }"),
                   Rule("D7.vector-iter", r"__auto_type it = args_\.begin\(\)", "size_t it = 0"),
                   Rule("D7.vector-iter", r"\bargs_\.end\(\)", "args_.count"),
                   Rule("D7.string-iter", r"\bformat_\.begin\(\)", "((size_t)0)"),
                   Rule("D7.string-iter", r"\bformat_\.end\(\)", "format_.len"),
                   members],
            pre=[Rule("D2.auto", r"\bauto\b", "__auto_type"), IterName()],
            must_fire=["D7.regex-literal", "D7.regex-begin", "D7.regex-end", "D7.match-position", "D7.match-length", "D7.arg-range", "D7.append-range", "D3.rvo-return"]))
    u.add(F("fmt_to_string", FMT, r"operator string_type\(\) const", "void fmt_to_string(struct nout *result, %s)" % csf, P, within=W,
            rules=[Rule("D3.rvo-call", r"return\s+str\(\);", "fmt_str(result, self); NITRO_PROPAGATE; return;")], must_fire=["D3.rvo-call"]))
    u.add(F("fmt_stream_out", FMT, r"std::ostream& operator<<\(std::ostream& s, const formatter<Char, Traits>& f\)",
            "void fmt_stream_out(struct nout *s, const struct formatter *f)", P,
            rules=[Rule("D6.stream-formatter", r"return\s+s\s*<<\s*f\.str\(\);", "fmt_str(s, f); NITRO_PROPAGATE; return;")], must_fire=["D6.stream-formatter"],
            note="the target stream is rendered as the piece log the text is appended to (fresh log)"))
    for i, (sig, nm) in enumerate([(r"inline auto format\(const std::basic_string<Char, Traits>& format_str\)\s*->\s*detail::formatter<Char, Traits>", "fmt_format_string"),
                                   (r"inline auto format\(const Char\* format_str\)\s*->\s*detail::formatter<Char>", "fmt_format_cstr"),
                                   (r"inline nitro::detail::formatter<char> operator\"\"_nf\(const char\* format_str, std::size_t\)", "fmt_literal_nf")]):
        u.add(F(nm, FMT, sig, "void %s(struct formatter *ret, const struct nstr *format_str)" % nm, P,
                rules=[CallRule("D3.rvo-ctor", r"return\s+(?:nitro::)?detail::formatter<[^>]*>\(", lambda m, a: "fmt_ctor(ret, %s); return" % a[0])],
                must_fire=["D3.rvo-ctor"]))

    # exception message = concatenation of the stream representations of the arguments
    recx = src.find(EXC, r"void operator\(\)\(std::stringstream& msg, Arg&& arg, Args&&\.\.\. args\)")
    basex = src.find(EXC, r"void operator\(\)\(std::stringstream& msg, Arg&& arg\)")

    class ExcBody:
        name = "D1.pack-recursion"

        def apply(self, text):
            def conv(b, last):
                b, n = re.subn(r"\bmsg\s*<<\s*std::forward<Arg>\(arg\);", "nout_append_val(msg, &pack[i]);", b)
                if n != 1:
                    raise ExtractionError("make_exception::operator() no longer streams exactly its first argument")
                if not last:
                    b, n = re.subn(r"make_exception<Args\.\.\.>\(\)\(msg,\s*std::forward<Args>\(args\)\.\.\.\);", "exc_make(msg, pack, i + 1, n);", b)
                    if n != 1:
                        raise ExtractionError("make_exception<Arg, Args...> no longer recurses on the rest of the pack")
                return b
            return "\n    if (i + 1 == n)\n    {%s}\n    else\n    {%s}\n" % (conv(basex["body"], True), conv(recx["body"], False)), 1
    u.add(F("exc_make", EXC, r"void operator\(\)\(std::stringstream& msg, Arg&& arg\)", "void exc_make(struct nout *msg, const struct nval *pack, size_t i, size_t n)", P, rec=True,
            harness="""void h_exc_make(void)
{
    struct nout *msg = malloc(sizeof(*msg)); size_t i, n;
    __CPROVER_assume(msg != 0 && n >= 1 && n <= 64);
    struct nval *pack = malloc(n * sizeof(struct nval));
    __CPROVER_assume(pack != 0);
    NITRO_HAVOC;
    exc_make(msg, pack, i, n);
    NITRO_CANARIES;
}
""",
            pre=[ExcBody()], note="primary template and the one-argument specialisation rendered as the two branches of an index recursion"))
    u.add(F("exc_make_string", EXC, r"inline std::string make_string\(Args&&\.\.\. args\)", "void exc_make_string(struct nout *ret, const struct nval *pack, size_t n)", P,
            rules=[Rule("D3.rvo-static", r"static\s+(?:thread_local\s+)?std::stringstream\s+msg;", "nout_static_init(ret);"),
                   Rule("D3.rvo-local", r"std::stringstream\s+msg;", "nout_init(ret);"),
                   Rule("D7.stream-set-text", r"\bmsg\.str\((?:std::string\(\)|\"\")\);", "nout_set_text_empty(ret);"),
                   Rule("D7.stream-clear", r"\bmsg\.clear\(\);", "/* clear(): resets the error state only */"),
                   Rule("D1.pack-call", r"detail::make_exception<Args\.\.\.>\(\)\(msg,\s*std::forward<Args>\(args\)\.\.\.\);", "exc_make(ret, pack, 0, n);"),
                   Rule("D3.rvo-return", r"return\s+msg\.str\(\);", "return;")],
            must_fire=["D1.pack-call", "D3.rvo-return"]))
    ex = src.find(EXC, r"explicit exception\(Args&&\.\.\. args\)")
    if not (ex["init"] and ex["init"][0][0] == "std::runtime_error" and re.sub(r"\s+", "", ex["init"][0][1]) == "detail::make_string(std::forward<Args>(args)...)" and not ex["body"].strip()):
        raise ExtractionError("exception::exception no longer initialises std::runtime_error with make_string(args...)")
    u.static_facts.append("nitro::except::exception(Args&&...) initialises std::runtime_error with detail::make_string(std::forward<Args>(args)...) and has an empty body (read from the source on this run): what() is that string")
    rz = src.find(RAISE, r"inline void raise\(Args&&\.\.\. args\)")
    if re.sub(r"\s+", "", rz["body"]) != "throwException(std::forward<Args>(args)...);":
        raise ExtractionError("raise() no longer is `throw Exception(std::forward<Args>(args)...)`")
    u.static_facts.append("nitro::raise<Exception>(args...) is `throw Exception(std::forward<Args>(args)...)` (read from the source on this run)")
    u.stubs = ["nout_append_slice", "nout_append_arg", "nout_append_val", "nargs_emplace_back", "nrx_position"]
    u.trusted = [
        "extraction rules D1-D8: Char := char, T/Arg := nval (value with a stream representation), packs := (array, index, count); iterators into format_ and args_ := offsets / indices",
        "std::sregex_iterator over the literal \\{\\} enumerates the left-to-right non-overlapping occurrences of the two bytes {} (nrx stubs, assumed; the literal is checked on every run)",
        "basic_string::append(first, last) appends the bytes of the range verbatim; stringstream << v appends v's stream representation; str() returns the text (assumed)",
        "std::vector::emplace_back appends one element (assumed)",
    ]
    return u
