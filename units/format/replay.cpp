// Native replay for the format unit: exhaustive small-domain comparison of the REAL nitro::format / nitro::raise
// with the reference definition of C08.   fmt_replay <job>     exit 1 = deviation printed
#include <nitro/format/format.hpp>
#include <cstdio>
#include <string>
#include <vector>
#include <sstream>
using S = std::string;
static std::vector<S> all(const char* alpha, size_t maxlen)
{
    std::vector<S> out{ "" };
    size_t from = 0;
    for (size_t l = 1; l <= maxlen; ++l)
    {
        size_t to = out.size();
        for (size_t i = from; i < to; ++i)
            for (const char* c = alpha; *c; ++c)
                out.push_back(out[i] + *c);
        from = to;
    }
    return out;
}
static int check_format()
{
    const char* argv[] = { "X", "{}", "{", "}{", "" };
    for (auto& f : all("{}a", 6))
    {
        std::vector<size_t> ph;
        for (size_t p = 0; p + 1 < f.size();) { if (f[p] == '{' && f[p + 1] == '}') { ph.push_back(p); p += 2; } else ++p; }
        for (size_t n = 0; n <= ph.size() + 1 && n <= 4; ++n)
            for (int mode = 0; mode < 3; ++mode)
                for (size_t a0 = 0; a0 < 5; ++a0)
                {
                    std::vector<S> args;
                    for (size_t i = 0; i < n; ++i) args.push_back(argv[(a0 + i) % 5]);
                    S want; size_t in = 0;
                    for (size_t i = 0; i < n && i < ph.size(); ++i) { want += f.substr(in, ph[i] - in); want += args[i]; in = ph[i] + 2; }
                    want += f.substr(in);
                    bool expect_raise = n != ph.size(), raised = false; S got;
                    try
                    {
                        auto fm = nitro::format(f);
                        if (mode == 0) { for (auto& a : args) fm % a; }
                        else if (mode == 1)
                        {
                            switch (n) { case 0: fm.args(); break; case 1: fm.args(args[0]); break; case 2: fm.args(args[0], args[1]); break;
                                         case 3: fm.args(args[0], args[1], args[2]); break; default: fm.args(args[0], args[1], args[2], args[3]); }
                        }
                        else { for (size_t i = 0; i < n; ++i) { if (i % 2) fm % args[i]; else fm.args(args[i]); } }
                        if (mode == 2) { std::stringstream ss; ss << fm; got = ss.str(); } else if (mode == 1) got = S(fm); else got = fm.str();
                    }
                    catch (std::exception&) { raised = true; }
                    if (raised != expect_raise || (!raised && got != want))
                    {
                        std::printf("DEVIATION format(\"%s\") with %zu argument(s) (first \"%s\", mode %d): raised=%d result=\"%s\" expected %s\"%s\"\n",
                                    f.c_str(), n, n ? args[0].c_str() : "", mode, raised, got.c_str(), expect_raise ? "an exception, not " : "", want.c_str());
                        return 1;
                    }
                }
    }
    return 0;
}
struct Hexy { int v; };
static std::ostream& operator<<(std::ostream& o, const Hexy& h) { return o << std::hex << h.v; }
static int check_message()
{
    for (int round = 0; round < 3; ++round)
    {
        S what;
        try { nitro::raise("a", 1, "{}", 2.5, 'c', 10); } catch (std::exception& e) { what = e.what(); }
        if (what != "a1{}2.5c10") { std::printf("DEVIATION raise(\"a\",1,\"{}\",2.5,'c',10).what() == \"%s\" (round %d)\n", what.c_str(), round); return 1; }
        try { nitro::raise("x"); } catch (std::exception& e) { what = e.what(); }
        if (what != "x") { std::printf("DEVIATION raise(\"x\").what() == \"%s\"\n", what.c_str()); return 1; }
        try { nitro::raise("slot ", 10, " holds ", Hexy{ 255 }); } catch (std::exception& e) { what = e.what(); }
        if (what != "slot 10 holds ff") { std::printf("DEVIATION message with a manipulator-using argument: \"%s\" (round %d)\n", what.c_str(), round); return 1; }
    }
    return 0;
}
int main(int argc, char** argv)
{
    if (argc < 2) return 2;
    S job = argv[1];
    int rc = job.rfind("exc_", 0) == 0 ? check_message() : (check_format() || check_message());
    if (rc == 0) std::printf("CONFORMS %s on the sweep domain\n", job.c_str());
    return rc;
}
