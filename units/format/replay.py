"""Native replay hook of the format unit: abstract counterexamples (lengths, match counts) are concretised by an
exhaustive sweep of format strings over {'{','}','a'} up to length 6 with 0..k+1 arguments (replay.cpp)."""
import os
from vf import replay as R
HERE = os.path.dirname(os.path.abspath(__file__))


def native_replay(job, inputs, bdir):
    return False, {"note": "abstract counterexample %s: concretised by the exhaustive small-domain sweep" % (inputs.get("g_in") or [])[:3]}


def native_sweep(job, bdir):
    exe = os.path.join(bdir, "fmt_replay")
    if not os.path.exists(exe):
        rc, out = R.build_native(os.path.join(HERE, "replay.cpp"), exe)
        if rc != 0:
            return False, {"build_error": out}
    rc, out = R.run_native([exe, job], timeout=300)
    return (rc != 0 and rc != 2), {"cmd": "fmt_replay " + job, "exit": rc, "output": out.strip()[-600:]}
