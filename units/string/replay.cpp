// Native replay for the string unit: exhaustive small-domain comparison of the REAL nitro::lang functions
// with straightforward reference definitions of C17's laws.   str_replay <fn>    exit 1 = deviation printed
#include <nitro/lang/string.hpp>
#include <cstdio>
#include <cstring>
#include <string>
#include <vector>
#include <csignal>
#include <unistd.h>
using S = std::string;
static std::vector<S> all(const char* alpha, size_t maxlen)
{
    std::vector<S> out{ "" };
    size_t from = 0;
    for (size_t l = 1; l <= maxlen; ++l)
    {
        size_t to = out.size();
        for (size_t i = from; i < to; ++i)
            for (const char* c = alpha; *c; ++c)
                out.push_back(out[i] + *c);
        from = to;
    }
    return out;
}
static std::vector<size_t> occurrences(const S& h, const S& n)
{ // left-to-right non-overlapping
    std::vector<size_t> o;
    size_t p = 0;
    while (n.size() && p + n.size() <= h.size())
    {
        if (h.compare(p, n.size(), n) == 0) { o.push_back(p); p += n.size(); }
        else ++p;
    }
    return o;
}
static int check_split()
{
    for (auto& h : all("ab", 6))
        for (auto& n : all("ab", 3))
        {
            bool raised = false;
            std::vector<S> r;
            try { r = nitro::lang::split(h, n); } catch (std::exception&) { raised = true; }
            if (raised != n.empty()) { std::printf("DEVIATION split(\"%s\",\"%s\"): raised=%d\n", h.c_str(), n.c_str(), raised); return 1; }
            if (raised) continue;
            S glued;
            for (size_t i = 0; i < r.size(); ++i) { if (i) glued += n; glued += r[i]; }
            auto occ = occurrences(h, n);
            bool contains = false;
            for (auto& p : r) if (p.find(n) != S::npos) contains = true;
            if (glued != h || r.size() != occ.size() + 1 || contains)
            {
                std::printf("DEVIATION split(\"%s\",\"%s\"): %zu pieces (expected %zu), glued=\"%s\", piece contains separator=%d\n", h.c_str(), n.c_str(), r.size(), occ.size() + 1, glued.c_str(), contains);
                return 1;
            }
        }
    return 0;
}
static int check_starts_with()
{
    for (auto& h : all("ab", 5))
        for (auto& n : all("ab", 5))
        {
            bool want = h.compare(0, n.size(), n) == 0 && n.size() <= h.size();
            if (nitro::lang::starts_with(h, n) != want) { std::printf("DEVIATION starts_with(\"%s\",\"%s\") != %d\n", h.c_str(), n.c_str(), want); return 1; }
        }
    return 0;
}
static int check_replace_all()
{
    for (auto& h : all("ab", 5))
        for (auto& n : all("ab", 3))
            for (auto& r : all("ab", 2))
            {
                S want;
                if (!n.empty())
                {
                    auto occ = occurrences(h, n);
                    size_t p = 0;
                    for (auto o : occ) { want += h.substr(p, o - p); want += r; p = o + n.size(); }
                    want += h.substr(p);
                }
                S got = h;
                bool raised = false;
                alarm(5); // an endless loop is a deviation: SIGALRM kills the process (reported by the caller as exit != 0)
                try { nitro::lang::replace_all(got, n, r); } catch (std::exception&) { raised = true; }
                alarm(0);
                if (raised != n.empty()) { std::printf("DEVIATION replace_all(\"%s\",\"%s\",\"%s\"): raised=%d\n", h.c_str(), n.c_str(), r.c_str(), raised); return 1; }
                if (!raised && got != want) { std::printf("DEVIATION replace_all(\"%s\",\"%s\",\"%s\") = \"%s\", single left-to-right pass gives \"%s\"\n", h.c_str(), n.c_str(), r.c_str(), got.c_str(), want.c_str()); return 1; }
            }
    return 0;
}
static int check_join()
{
    // ideal: the non-empty elements separated by the infix.  Inputs inside the two KNOWN-FINDING regions
    // (last element empty and infix != " ";  last element ends in a blank) are skipped: they are reported separately.
    auto elems = all("a ", 2);
    const char* infixes[] = { " ", ",", ", ", "", "ab" };
    for (const char* inf : infixes)
        for (size_t n = 0; n <= 3; ++n)
        {
            std::vector<size_t> idx(n, 0);
            while (true)
            {
                std::vector<S> v;
                for (size_t i = 0; i < n; ++i) v.push_back(elems[idx[i]]);
                bool skip = false;
                if (n >= 2 && v[n - 1].empty() && S(inf) != " ") skip = true;
                if (n >= 1 && !v[n - 1].empty() && v[n - 1].back() == ' ') skip = true;
                if (!skip)
                {
                    S want; bool first = true;
                    for (auto& e : v) if (!e.empty()) { if (!first) want += inf; want += e; first = false; }
                    S got = nitro::lang::join(v, inf);
                    S got2 = nitro::lang::join(v.begin(), v.end(), S(inf));
                    if (got != want || got2 != want)
                    {
                        std::printf("DEVIATION join({"); for (auto& e : v) std::printf("\"%s\",", e.c_str());
                        std::printf("}, \"%s\") = \"%s\", expected \"%s\"\n", inf, got.c_str(), want.c_str());
                        return 1;
                    }
                }
                size_t k = 0;
                while (k < n && ++idx[k] == elems.size()) idx[k++] = 0;
                if (k == n) break;
            }
        }
    return 0;
}
int main(int argc, char** argv)
{
    if (argc < 2) return 2;
    S fn = argv[1];
    int rc = 2;
    if (fn == "lang_split") rc = check_split();
    else if (fn == "lang_starts_with") rc = check_starts_with();
    else if (fn == "lang_replace_all") rc = check_replace_all();
    else if (fn == "lang_join" || fn == "lang_join_vec") rc = check_join();
    if (rc == 0) std::printf("CONFORMS %s on all strings over {a,b} up to the sweep bound\n", fn.c_str());
    return rc;
}
