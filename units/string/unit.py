"""string unit: nitro::lang::split, starts_with, replace_all, join (include/nitro/lang/string.hpp).
Strings are abstract (rt/nitro_str.h): lengths up to 2^40, content seen through the uninterpreted match
predicate at one witness position, find() calls and vector pieces through ghost logs."""
import re
from vf.extract import Rule, CallRule
from vf.unit import Unit, F, Lemma

REL = "include/nitro/lang/string.hpp"
P = ["C17"]


def methods(table):
    """receiver.method(args) -> cfun(receiver-expr, args) for receivers/methods in table {(recv, method): template}"""
    rules = []
    for (recv, meth), tmpl in table.items():
        def fn(m, a, tmpl=tmpl):
            return tmpl.format(*a) if a else tmpl
        rules.append(CallRule("D7.%s.%s" % (recv, meth), r"\b%s\.%s\(" % (recv, meth), fn))
    return rules


def nstr_recv(name):
    """generic renderings of std::string members on a const std::string& parameter (pointer P_<name>)"""
    P = "P_" + name
    return methods({(name, "empty"): "(%s->len == 0)" % P, (name, "size"): "%s->len" % P, (name, "length"): "%s->len" % P}) + [
        CallRule("D7.%s.find" % name, r"\b%s\.find\(" % name, lambda m, a: "nstr_find(%s, %s, %s)" % (P, ptr(a[0]), a[1] if len(a) > 1 else "0")),
        CallRule("D7.%s.substr" % name, r"\b%s\.substr\(" % name, lambda m, a: "nstr_substr(%s, %s, %s)" % (P, a[0] if a else "0", a[1] if len(a) > 1 else "NITRO_NPOS")),
    ]


def ptr(expr):
    """argument passed by const reference to a stub taking a pointer"""
    e = expr.strip()
    return "P_" + e if re.match(r"^\w+$", e) else "&(" + e + ")"


def refparams(names):
    out = []
    for n in names:
        out.append(Rule("D3.refparam." + n, r"(?<![\w.>&])%s\b(?!\s*\()" % n, "(*%s)" % n))
    out.append(Rule("D3.refparam-ptr", r"\bP_(\w+)", r"\1"))
    return out


def build(src):
    u = Unit("string", src)
    common = [
        CallRule("D4.raise", r"(?<![\w:])raise\(", lambda m, a: "NITRO_THROW(EXC_NITRO)"),
        Rule("D7.npos", r"std::string::npos", "NITRO_NPOS"),
        Rule("D7.size_type", r"std::string::size_type", "size_t"),
        Rule("D7.string-ctor", r"std::string\(\)", "nstr_empty()"),
        Rule("D2.auto", r"\bauto\b", "__auto_type"),
    ]
    u.rules = common
    u.add(F("lang_split", REL, r"inline std::vector<std::string> split\(const std::string& haystack, const std::string& needle\)",
            "void lang_split(struct nvec *result, const struct nstr *haystack, const struct nstr *needle)", P,
            rules=nstr_recv("haystack") + nstr_recv("needle") +
            methods({("result", "emplace_back"): "nvec_emplace_back(result, {0}); NITRO_PROPAGATE",
                     ("result", "push_back"): "nvec_emplace_back(result, {0}); NITRO_PROPAGATE"}) + [
                Rule("D3.rvo-local", r"std::vector<std::string>\s+result;", "nvec_init(result);"),
                Rule("D3.rvo-return", r"return\s+result;", "return;"),
            ] + refparams(["haystack", "needle"]), must_fire=["D3.rvo-local", "D3.rvo-return", "D7.haystack.find", "D7.result.emplace_back"]))
    u.add(F("lang_starts_with", REL, r"inline bool starts_with\(const std::string& full, const std::string& beginning\)",
            "nbool lang_starts_with(const struct nstr *full, const struct nstr *beginning)", P, dflt="0",
            rules=nstr_recv("full") + nstr_recv("beginning") + refparams(["full", "beginning"]),
            must_fire=["D7.full.find"]))
    u.add(F("lang_replace_all", REL, r"inline void replace_all\(std::string& str, const std::string& to_replace,\s*const std::string& replacement\)",
            "void lang_replace_all(struct nstrm *str, const struct nstr *to_replace, const struct nstr *replacement)", P,
            rules=nstr_recv("to_replace") + nstr_recv("replacement") + [
                CallRule("D7.str.find", r"\bstr\.find\(", lambda m, a: "nstrm_find(str, %s, %s)" % (ptr(a[0]), a[1] if len(a) > 1 else "0")),
                CallRule("D7.str.replace", r"\bstr\.replace\(", lambda m, a: "nstrm_replace(str, %s, %s, %s); NITRO_PROPAGATE" % (a[0], a[1], ptr(a[2]))),
                Rule("D7.str.size", r"\bstr\.(size|length)\(\)", "NSTRM_LEN(str)"),
            ] + refparams(["to_replace", "replacement"]),
            must_fire=["D7.str.find", "D7.str.replace"]))
    join_rules = nstr_recv("infix") + nstr_recv("str") + [
        Rule("D7.sstream-decl", r"std::stringstream\s+s;", "struct nos s; nos_init(&s);"),
        Rule("D7.sstream-tellp", r"\bs\.tellp\(\)", "nos_tellp(&s)"),
        Rule("D6.stream-elem", r"\bs\s*<<\s*\*it\s*;", "nos_put_elem(&s, it);"),
        Rule("D6.stream-infix", r"\bs\s*<<\s*infix\s*;", "nos_put_infix(&s, P_infix);"),
        Rule("D7.sstream-str", r"\bs\.str\(\)", "nos_str(&s)"),
        Rule("D7.back-blank", r"\bstr\.back\(\)\s*==\s*' '", "(str.tail_blank)"),
        Rule("D7.str-local", r"\bP_str\b", "(&str)"),
        Rule("D3.return-empty", r"return\s*\{\s*\}\s*;", "return nstr_empty();"),
    ] + refparams(["infix"])
    u.add(F("lang_join", REL, r"std::string join\(InputIterator begin, InputIterator end,\s*const std::string& infix = std::string\(\" \"\)\)",
            "struct nstr lang_join(const struct nstr *begin, const struct nstr *end, const struct nstr *infix)", P,
            dflt="nstr_empty()", rules=join_rules,
            must_fire=["D7.sstream-decl", "D6.stream-elem", "D6.stream-infix", "D7.sstream-str"]))
    u.add(F("lang_join_vec", REL, r"inline std::string join\(const std::vector<std::string>& strs,\s*const std::string& infix = std::string\(\" \"\)\)",
            "struct nstr lang_join_vec(const struct nstr *strs_p, size_t strs_n, const struct nstr *infix)", P, dflt="nstr_empty()",
            rules=[Rule("D7.vector-begin", r"\bstrs\.begin\(\)", "strs_p"), Rule("D7.vector-end", r"\bstrs\.end\(\)", "(strs_p + strs_n)"),
                   CallRule("D6.join-call", r"(?<![\w.])join\(", lambda m, a: "lang_join(%s)" % ", ".join(a))],
            must_fire=["D6.join-call"]))
    u.stubs = ["nos_put_elem", "nos_put_infix", "nstr_find", "nstr_substr", "nvec_emplace_back", "nstrm_find", "nstrm_replace"]
    u.trusted = [
        "extraction rules D1-D7: std::string := abstract string (length + ghost coordinates), std::vector<std::string> := ghost view (count, witness element); return-by-value vector rendered as out-parameter",
        "std::string::find(n, start): npos or the least position >= start where n occurs (nstr_find/nstrm_find, assumed)",
        "std::string::substr(pos, n): out_of_range iff pos > size(), else min(n, size()-pos) bytes from pos (assumed)",
        "std::string::replace(pos, n, r): out_of_range iff pos > size(); replaces min(n, size()-pos) bytes by r (assumed)",
        "std::vector::emplace_back appends one element (assumed); allocation never fails",
        "strings are shorter than 2^40 bytes",
        "std::stringstream: tellp() is the number of bytes written, operator<< appends the text, str() returns it (nos stubs, assumed); InputIterator := pointer into an array of strings",
    ]
    return u
