/* Contracts for nitro::lang string helpers (C17).  Top-level postconditions transcribe the property:
 * split cuts at the left-to-right non-overlapping occurrences of the needle; replace_all is one left-to-right
 * pass over the ORIGINAL text that never rescans replacement text and terminates; starts_with is the prefix relation. */
#ifndef STRING_CONTRACTS_H
#define STRING_CONTRACTS_H
#include "nitro_rt.h"
#include "nitro_str.h"
#include "kf_gen.h"
#include "enf_gen.h"
#define NITRO_UNIT_GLOBALS NITRO_STR_GLOBALS
#define NITRO_HAVOC_UNIT NITRO_STR_HAVOC

#define STR_REC(fn, a, b, c) (!NITRO_ENF_##fn || (g_in[0] == (size_t)(a) && g_in[1] == (size_t)(b) && g_in[2] == (size_t)(c)))
#define STR_OBJ(p) __CPROVER_is_fresh(p, sizeof(*(p)))

/* ---- split ----
 * find() is called once per piece.  Let (s_i, r_i) be start and result of the i-th call.  Then:
 *   s_0 = 0;  piece i is haystack[s_i, r_i) (to the end when r_i = npos);  s_{i+1} = r_i + |needle|;
 *   r_i = npos exactly for the last call.  With find's contract (r_i is the LEAST match >= s_i) this says the
 *   pieces are what remains after cutting out the left-to-right non-overlapping occurrences: gluing them
 *   back with the needle gives the haystack, their number is occurrences + 1, none contains the needle. */
void lang_split(struct nvec *result, const struct nstr *haystack, const struct nstr *needle)
__CPROVER_requires(nitro_exc == 0 && STR_OBJ(result) && STR_OBJ(haystack) && STR_OBJ(needle))
__CPROVER_requires(haystack->len <= NSTR_MAXLEN && needle->len <= NSTR_MAXLEN && haystack->off == 0 && NSTR_MATCH_WF(haystack, needle))
__CPROVER_requires(g_find_calls == 0 && g_fc == g_w && g_w < NITRO_NPOS - 1)
__CPROVER_requires(STR_REC(lang_split, haystack->len, needle->len, 0))
__CPROVER_assigns(*result, nitro_exc, g_find_calls, g_fstart, g_fret, g_fstart1, g_fret1)
__CPROVER_ensures((needle->len == 0) == (nitro_exc != 0))                                   /*@ raises_iff_needle_empty */
__CPROVER_ensures(nitro_exc == 0 || nitro_exc == EXC_NITRO)                                 /*@ no_other_exception */
__CPROVER_ensures(nitro_exc == 0 ==> (result->count == g_find_calls && result->count >= 1)) /*@ one_piece_per_find */
__CPROVER_ensures((nitro_exc == 0 && g_w == 0) ==> g_fstart == 0)                            /*@ first_piece_starts_at_0 */
__CPROVER_ensures((nitro_exc == 0 && g_w < result->count) ==> g_fstart <= haystack->len)
__CPROVER_ensures((nitro_exc == 0 && g_w < result->count) ==>
      result->w.len == (g_fret == NITRO_NPOS ? haystack->len - g_fstart : g_fret - g_fstart)) /*@ piece_runs_to_next_occurrence */
__CPROVER_ensures((nitro_exc == 0 && g_w < result->count && result->w.len > 0) ==> result->w.off == g_fstart)  /*@ piece_is_that_part_of_the_input */
__CPROVER_ensures((nitro_exc == 0 && g_w < result->count) ==> ((g_fret == NITRO_NPOS) == (g_w == result->count - 1)))  /*@ last_piece_iff_no_further_occurrence */
__CPROVER_ensures((nitro_exc == 0 && g_w + 1 < result->count) ==> g_fstart1 == g_fret + needle->len);   /*@ next_piece_starts_after_the_separator */

#define NITRO_LOOP_lang_split_1 \
  __CPROVER_assigns(start, *result, nitro_exc, g_find_calls, g_fstart, g_fret, g_fstart1, g_fret1) \
  __CPROVER_loop_invariant(nitro_exc == 0 && needle->len >= 1 && start <= haystack->len && result->count == g_find_calls && result->count <= start) \
  __CPROVER_loop_invariant((result->count == 0) == (start == 0)) \
  __CPROVER_loop_invariant(g_w < result->count ==> (g_fstart <= haystack->len && g_fret != NITRO_NPOS && result->w.len == g_fret - g_fstart && (result->w.len > 0 ==> result->w.off == g_fstart))) \
  __CPROVER_loop_invariant((g_w == 0 && result->count > 0) ==> g_fstart == 0) \
  __CPROVER_loop_invariant(g_w + 1 == result->count ==> start == g_fret + needle->len) \
  __CPROVER_loop_invariant(g_w + 1 < result->count ==> g_fstart1 == g_fret + needle->len) \
  __CPROVER_decreases(haystack->len - start)

/* ---- starts_with: exactly the prefix relation (the witness position is 0) ---- */
nbool lang_starts_with(const struct nstr *full, const struct nstr *beginning)
__CPROVER_requires(nitro_exc == 0 && STR_OBJ(full) && STR_OBJ(beginning) && full->len <= NSTR_MAXLEN && beginning->len <= NSTR_MAXLEN)
__CPROVER_requires(g_mw == 0 && NSTR_MATCH_WF(full, beginning))
__CPROVER_requires(STR_REC(lang_starts_with, full->len, beginning->len, 0))
__CPROVER_assigns(g_find_calls, g_fstart, g_fret, g_fstart1, g_fret1)
__CPROVER_ensures(__CPROVER_return_value == g_match && nitro_exc == 0);                      /*@ true_iff_beginning_occurs_at_position_0 */

/* ---- replace_all ----
 * Coordinates of the ORIGINAL text.  (s_i, r_i) = start and result of the i-th find, e_i = position of the i-th edit:
 *   s_0 = 0;  e_i = r_i != npos;  s_{i+1} = r_i + |pattern|  (so occurrences are non-overlapping and the
 *   replacement text is never searched: nstrm_find requires start >= rewritten prefix);  the loop ends at the first r_i = npos.
 * Termination: decreases(orig_len - orig_pos). */
void lang_replace_all(struct nstrm *str, const struct nstr *to_replace, const struct nstr *replacement)
__CPROVER_requires(nitro_exc == 0 && STR_OBJ(str) && STR_OBJ(to_replace) && STR_OBJ(replacement))
__CPROVER_requires(str->orig_len <= NSTR_MAXLEN && str->suffix == str->orig_len && str->boundary == 0 && str->edits == 0)
__CPROVER_requires(to_replace->len <= NSTR_MAXLEN && replacement->len <= NSTR_MAXLEN && g_find_calls == 0 && g_fc == g_w && g_ec == g_w && g_w < NITRO_NPOS - 1)
__CPROVER_requires(STR_REC(lang_replace_all, str->orig_len, to_replace->len, replacement->len))
__CPROVER_assigns(*str, nitro_exc, g_find_calls, g_fstart, g_fret, g_fstart1, g_fret1, g_eorig)
__CPROVER_ensures((to_replace->len == 0) == (nitro_exc != 0))                               /*@ raises_iff_pattern_empty */
__CPROVER_ensures(nitro_exc == 0 || nitro_exc == EXC_NITRO)                                 /*@ no_other_exception */
__CPROVER_ensures(nitro_exc == 0 ==> (g_find_calls == str->edits + 1))                      /*@ one_edit_per_successful_find */
__CPROVER_ensures((nitro_exc == 0 && g_w == 0) ==> g_fstart == 0)                            /*@ scan_starts_at_0 */
__CPROVER_ensures((nitro_exc == 0 && g_w < str->edits) ==> (g_fret != NITRO_NPOS && g_eorig == g_fret))  /*@ edit_at_leftmost_occurrence */
__CPROVER_ensures((nitro_exc == 0 && g_w < str->edits) ==> g_fstart1 == g_fret + to_replace->len)        /*@ scan_resumes_after_the_occurrence */
__CPROVER_ensures((nitro_exc == 0 && g_w == str->edits) ==> g_fret == NITRO_NPOS)           /*@ stops_when_no_occurrence_is_left */
__CPROVER_ensures(nitro_exc == 0 ==> (NSTRM_WF(str) && str->orig_len == __CPROVER_old(str->orig_len)));  /*@ untouched_suffix_preserved */

#define NITRO_LOOP_lang_replace_all_1 \
  __CPROVER_assigns(start_pos, *str, nitro_exc, g_find_calls, g_fstart, g_fret, g_fstart1, g_fret1, g_eorig) \
  __CPROVER_loop_invariant(nitro_exc == 0 && to_replace->len >= 1 && NSTRM_WF(str) && str->orig_len == __CPROVER_loop_entry(str->orig_len)) \
  __CPROVER_loop_invariant(start_pos == str->boundary && g_find_calls == str->edits && str->edits <= NSTRM_OPOS(str)) \
  __CPROVER_loop_invariant((str->edits == 0) == (str->suffix == str->orig_len)) \
  __CPROVER_loop_invariant((g_w == 0 && str->edits > 0) ==> g_fstart == 0) \
  __CPROVER_loop_invariant(g_w < str->edits ==> (g_fret != NITRO_NPOS && g_eorig == g_fret)) \
  __CPROVER_loop_invariant(g_w + 1 == str->edits ==> NSTRM_OPOS(str) == g_fret + to_replace->len) \
  __CPROVER_loop_invariant(g_w + 1 < str->edits ==> g_fstart1 == g_fret + to_replace->len) \
  __CPROVER_decreases(str->suffix)

/* ---- join ----
 * C17: the non-empty elements separated by the infix, no leading / doubled infix (preconditions of nos_put_infix,
 * checked at each call site), no trailing infix and no element altered:  the result is the accumulated text
 * minus a trailing infix, and nothing else is removed.
 * KNOWN FINDINGS (regions in terms of the inputs):
 *   join_trailing_infix: last element empty and the infix is not exactly " "  -> a dangling infix (or part of it) stays
 *   join_trims_blank:    last element non-empty and ending in a blank          -> that blank is cut off */
#define JOIN_N ((size_t)(end - begin))
#define JOIN_INFIX_IS_BLANK (infix->len == 1 && infix->tail_blank)
#define JOIN_R_TRAIL(b, n) ((n) >= 2 && (b)[(n) - 1].len == 0 && !JOIN_INFIX_IS_BLANK)
#define JOIN_R_TRIM(b, n) ((n) >= 1 && (b)[(n) - 1].len > 0 && (b)[(n) - 1].tail_blank)
#if NITRO_KF_REGION && defined(NITRO_KF_SEL_join_trailing_infix)
#define JOIN_KF_PRE(b, n) JOIN_R_TRAIL(b, n)
#elif NITRO_KF_REGION && defined(NITRO_KF_SEL_join_trims_blank)
#define JOIN_KF_PRE(b, n) JOIN_R_TRIM(b, n)
#else
#define JOIN_KF_PRE(b, n) ((!KF_join_trailing_infix || !JOIN_R_TRAIL(b, n)) && (!KF_join_trims_blank || !JOIN_R_TRIM(b, n)))
#endif
struct nstr lang_join(const struct nstr *begin, const struct nstr *end, const struct nstr *infix)
__CPROVER_requires(nitro_exc == 0 && STR_OBJ(infix) && infix->len <= NSTR_MAXLEN)
__CPROVER_requires((NITRO_ENF_lang_join && g_n <= NSTR_MAXLEN && __CPROVER_is_fresh(begin, (g_n == 0 ? 1 : g_n) * sizeof(struct nstr)) && end == begin + g_n) ||
                   (!NITRO_ENF_lang_join && __CPROVER_same_object(begin, end) && begin <= end && __CPROVER_r_ok(begin, JOIN_N * sizeof(struct nstr))))
__CPROVER_requires(JOIN_KF_PRE(begin, JOIN_N))
__CPROVER_requires(STR_REC(lang_join, JOIN_N, infix->len, JOIN_N ? begin[JOIN_N - 1].len : 0))
__CPROVER_assigns(g_os_len, g_os_last, g_os_tail_blank, nitro_exc)
__CPROVER_ensures(nitro_exc == 0)                                                            /*@ never_raises */
__CPROVER_ensures(JOIN_N == 0 ==> __CPROVER_return_value.len == 0)                           /*@ empty_range_gives_empty_string */
__CPROVER_ensures(JOIN_N > 0 ==> __CPROVER_return_value.len == g_os_len - (g_os_last == OS_INFIX ? infix->len : 0))  /*@ only_a_trailing_infix_is_removed */
__CPROVER_ensures((JOIN_N > 0 && begin[JOIN_N - 1].len > 0) ==> g_os_last == OS_ELEM);        /*@ text_ends_with_the_last_element */

#define NITRO_LOOP_lang_join_1 \
  __CPROVER_assigns(it, s, g_os_len, g_os_last, g_os_tail_blank) \
  __CPROVER_loop_invariant(__CPROVER_same_object(it, begin) && __CPROVER_POINTER_OFFSET(it) >= __CPROVER_POINTER_OFFSET(begin) && \
                           __CPROVER_POINTER_OFFSET(it) < __CPROVER_POINTER_OFFSET(end) && __CPROVER_POINTER_OFFSET(it) % sizeof(struct nstr) == 0) \
  __CPROVER_loop_invariant(s.len == g_os_len && g_os_len <= NSTR_MAXSIZE && g_os_last >= OS_NONE && g_os_last <= OS_INFIX) \
  __CPROVER_loop_invariant((g_os_len == 0) == (g_os_last == OS_NONE)) \
  __CPROVER_loop_invariant(infix->len > 0 ==> g_os_last != OS_ELEM) \
  __CPROVER_loop_invariant(g_os_last == OS_INFIX ==> g_os_tail_blank == infix->tail_blank) \
  __CPROVER_decreases(__CPROVER_POINTER_OFFSET(end) - __CPROVER_POINTER_OFFSET(it))

struct nstr lang_join_vec(const struct nstr *strs_p, size_t strs_n, const struct nstr *infix)
__CPROVER_requires(nitro_exc == 0 && STR_OBJ(infix) && infix->len <= NSTR_MAXLEN && strs_n <= NSTR_MAXLEN)
__CPROVER_requires(__CPROVER_is_fresh(strs_p, (strs_n == 0 ? 1 : strs_n) * sizeof(struct nstr)))
__CPROVER_requires(JOIN_KF_PRE(strs_p, strs_n))
__CPROVER_assigns(g_os_len, g_os_last, g_os_tail_blank, nitro_exc)
__CPROVER_ensures(nitro_exc == 0)
__CPROVER_ensures(strs_n == 0 ==> __CPROVER_return_value.len == 0);                          /*@ forwards_the_whole_vector */
#endif
