// Native replay for the log unit on the REAL headers.  log_replay c05 | c10 | c09    exit 1 = deviation printed
#include <nitro/log/attribute/message.hpp>
#include <nitro/log/attribute/severity.hpp>
#include <nitro/log/attribute/tag.hpp>
#include <nitro/log/attribute/timestamp.hpp>
#include <nitro/log/filter/severity_filter.hpp>
#include <nitro/log/filter/and_filter.hpp>
#include <nitro/log/filter/or_filter.hpp>
#include <nitro/log/filter/not_filter.hpp>
#include <nitro/log/sink/sequence.hpp>
#include <nitro/log/sink/stdout_mt.hpp>
#include <nitro/log/sink/stderr_mt.hpp>
#include <nitro/log/log.hpp>
#include <chrono>
#include <cstdio>
#include <iostream>
#include <sstream>
#include <stdexcept>
#include <string>
#include <thread>
#include <vector>
using nitro::log::severity_level;
using record = nitro::log::record<nitro::log::tag_attribute, nitro::log::message_attribute, nitro::log::severity_attribute,
                                  nitro::log::timestamp_clock_attribute<std::chrono::system_clock>>;
static std::vector<std::string> delivered; static std::vector<int> order; static int formatted = 0, lazies = 0;
template <typename R> struct formatter { std::string format(R& r) { ++formatted; std::stringstream s; s << r.severity() << "|" << r.tag() << "|" << r.message(); return s.str(); } };
template <int K> struct member_sink { void sink(severity_level, const std::string& rec) { order.push_back(K); if (K == 0) delivered.push_back(rec); } };
using seq_sink = nitro::log::sink::sequence<member_sink<0>, member_sink<1>, member_sink<2>>;
template <typename R> using filter = nitro::log::filter::severity_filter<R>;
using logging = nitro::log::logger<record, formatter, seq_sink, filter>;
static std::string lazy() { ++lazies; return "L"; }
static const char* names[] = { "TRACE", "DEBUG", " INFO", " WARN", "ERROR", "FATAL" };
template <severity_level S> static int one(int si, int thr, bool during_unwind)
{
    // both syntactic forms, with values, a callable, and (form 2) an insertion that sets failbit before a callable
    for (int form = 0; form < 3; ++form)
    {
        delivered.clear(); order.clear(); formatted = 0; lazies = 0;
        auto body = [&] {
            if (form == 0) { nitro::log::detail::smart_stream<record, formatter, seq_sink, filter, S>("tag") << "a" << 1 << lazy << "z"; }
            else if (form == 1) { nitro::log::detail::smart_stream<record, formatter, seq_sink, filter, S> s("tag"); s << "a"; s << 1; s << lazy; s << "z"; }
            else { nitro::log::detail::smart_stream<record, formatter, seq_sink, filter, S> s("tag"); s << "a" ; s << 1; s << static_cast<const char*>(nullptr); s << lazy; s << "z"; }
        };
        if (during_unwind) { struct G { decltype(body)& b; ~G() { b(); } }; try { G g{ body }; throw std::runtime_error("x"); } catch (...) {} }
        else body();
        bool enabled = si >= thr;
        std::string want = std::string(names[si]) + "|tag|" + (form == 2 ? "a1" : "a1Lz");
        size_t n = enabled ? 1 : 0;
        if (delivered.size() != n || formatted != (int)n || (enabled && form != 2 && delivered[0] != want) || (enabled && delivered[0].rfind(std::string(names[si]) + "|tag|a1", 0) != 0))
        { std::printf("DEVIATION C05 severity %d threshold %d form %d unwinding %d: %zu record(s), formatter calls %d, record \"%s\" (expected %zu x \"%s\")\n", si, thr, form, during_unwind, delivered.size(), formatted, delivered.empty() ? "" : delivered[0].c_str(), n, want.c_str()); return 1; }
        if (lazies != (enabled ? 1 : 0))
        { std::printf("DEVIATION C10 severity %d threshold %d form %d: the callable was called %d time(s), expected %d\n", si, thr, form, lazies, enabled ? 1 : 0); return 1; }
        if (enabled && (order.size() != 3 || order[0] != 0 || order[1] != 1 || order[2] != 2))
        { std::printf("DEVIATION C05 sequence sink: members served in order"); for (int o : order) std::printf(" %d", o); std::printf("\n"); return 1; }
    }
    return 0;
}
static int c05_c10()
{
    for (int thr = 0; thr < 6; ++thr)
    {
        filter<record>::set_severity(static_cast<severity_level>(thr));
        for (int unw = 0; unw < 2; ++unw)
            if (one<severity_level::trace>(0, thr, unw) || one<severity_level::debug>(1, thr, unw) || one<severity_level::info>(2, thr, unw) ||
                one<severity_level::warn>(3, thr, unw) || one<severity_level::error>(4, thr, unw) || one<severity_level::fatal>(5, thr, unw)) return 1;
    }
    return 0;
}
// C09: a deliberately non-thread-safe stream buffer; records from several threads must come out whole
struct unsafe_buf : std::streambuf
{
    std::string pending, out; volatile int inside = 0; int races = 0;
    int overflow(int c) override { enter(); pending.push_back((char)c); leave(); return c; }
    std::streamsize xsputn(const char* s, std::streamsize n) override { enter(); for (std::streamsize i = 0; i < n; ++i) { pending.push_back(s[i]); if (i % 7 == 0) std::this_thread::yield(); } leave(); return n; }
    int sync() override { enter(); out += pending; pending.clear(); std::this_thread::yield(); leave(); return 0; }
    void enter() { if (inside) ++races; inside = 1; } void leave() { inside = 0; }
};
template <typename Sink> static int hammer(std::ostream& os, const char* what, severity_level sev)
{
    unsafe_buf buf; auto* old = os.rdbuf(&buf);
    const int T = 4, N = 300;
    std::vector<std::thread> th;
    for (int t = 0; t < T; ++t) th.emplace_back([t, sev] { Sink s; for (int i = 0; i < N; ++i) { std::string rec = "[" + std::to_string(t) + ":" + std::to_string(i) + std::string(20 + (i % 13), 'x') + "]\n"; s.sink(sev, rec); } });
    for (auto& x : th) x.join();
    os.flush(); os.rdbuf(old);
    std::string all = buf.out + buf.pending;
    std::vector<int> next(T, 0); size_t pos = 0; int bad = buf.races;
    while (pos < all.size() && !bad)
    {
        size_t e = all.find('\n', pos); if (e == std::string::npos) { bad = 1; break; }
        std::string line = all.substr(pos, e - pos); pos = e + 1;
        int t = -1, i = -1; if (std::sscanf(line.c_str(), "[%d:%d", &t, &i) != 2 || t < 0 || t >= T || i != next[t] || line.back() != ']') { bad = 1; break; } ++next[t];
    }
    for (int t = 0; t < T && !bad; ++t) if (next[t] != N) bad = 1;
    if (bad) { std::printf("DEVIATION C09 %s: concurrent records were torn, lost, duplicated or reordered (buffer races seen: %d)\n", what, buf.races); return 1; }
    return 0;
}
int main(int argc, char** argv)
{
    if (argc < 2) return 2;
    std::string j = argv[1];
    int rc;
    if (j == "c09") { rc = 0; for (int r = 0; r < 5 && !rc; ++r) rc = hammer<nitro::log::sink::stdout_mt>(std::cout, "stdout_mt", severity_level::info) || hammer<nitro::log::sink::StdErrThreaded>(std::cerr, "stderr_mt", severity_level::info) || hammer<nitro::log::sink::StdErrThreaded>(std::cerr, "stderr_mt (fatal records)", severity_level::fatal); }
    else rc = c05_c10();
    if (rc == 0) std::printf("CONFORMS %s\n", j.c_str());
    return rc;
}
