"""log unit: smart_stream, null_stream, the operator<< overloads, logger, filters, sequence sink, thread-safe sinks
(C05, C09, C10).  Binding (D1): Record := nrecord (has severity, tag, message, timestamp attributes); Formatter/Sink/Filter :=
stubs with assumed contracts and ghost call counters; template parameter Severity := run-time parameter;
T := a value id (non-callable) or a callable id whose invocation is the stub nitro_call_lazy."""
import re
from vf.extract import Rule, CallRule, ExtractionError
from vf.unit import Unit, F, Lemma, ScopeEnd

ST = "include/nitro/log/stream.hpp"
LG = "include/nitro/log/logger.hpp"
SV = "include/nitro/log/severity.hpp"
SA = "include/nitro/log/detail/set_attribute.hpp"
FS = "include/nitro/log/filter/severity_filter.hpp"
FA = "include/nitro/log/filter/and_filter.hpp"
FO = "include/nitro/log/filter/or_filter.hpp"
FN = "include/nitro/log/filter/not_filter.hpp"
SQ = "include/nitro/log/sink/sequence.hpp"
SO = "include/nitro/log/sink/stdout_mt.hpp"
SE = "include/nitro/log/sink/stderr_mt.hpp"
P5 = ["C05"]
P510 = ["C05", "C10"]
P59 = ["C05", "C09"]
SS = r"class\s+smart_stream\b"
TPL = r"smart_stream<Record, Formatter, Sink, Filter, Severity>"


def build(src):
    u = Unit("log", src)
    # severity order, read from the enum (D1): SEV_<name> constants
    t = src.text(SV)
    m = re.search(r"enum class severity_level\s*:\s*char\s*\{([^}]*)\}", t)
    if not m:
        raise ExtractionError("enum class severity_level not found")
    names = [x.strip() for x in m.group(1).split(",") if x.strip()]
    if sorted(names) != sorted(["trace", "debug", "info", "warn", "error", "fatal"]) or any("=" in n for n in names):
        raise ExtractionError("severity_level enumerators changed: %r" % names)
    u.shared_decls = "/* enum class severity_level, in source order */\nenum { %s };\nnbool log_gate(int Severity, int min_severity);\n" % ", ".join("SEV_%s = %d" % (n, i) for i, n in enumerate(names))
    mins = src.text("include/nitro/log/log.hpp")
    if not re.search(r"#ifndef NITRO_LOG_MIN_SEVERITY\s*\n\s*#define NITRO_LOG_MIN_SEVERITY trace", mins):
        raise ExtractionError("default NITRO_LOG_MIN_SEVERITY is no longer trace")
    u.static_facts.append("NITRO_LOG_MIN_SEVERITY defaults to trace (log.hpp) and is a compile-time constant of type severity_level (static_assert in log.hpp)")
    u.members["ss"] = src.members(ST, SS)
    if [mm[1] for mm in u.members["ss"]] != ["r", "s"]:
        raise ExtractionError("smart_stream members changed: %r" % u.members["ss"])

    def minit(ty, name, expr):
        e = expr
        if e is None or e.strip() == "":
            e = "0"
        e = re.sub(r"^new Record$", "nitro_new_record()", e.strip())
        e = re.sub(r"^std::move\(ss\.(\w+)\)$", r"nitro_uptr_take((void **)&ss->\1)", e)
        return "self->%s = %s;" % (name, e)
    u.member_init["ss"] = minit
    u.ctor_cleanup["ss"] = "ss_members_dtor(self)"
    mem = Rule("D3.members", r"(?<![\w.>])(r|s)\b(?!\s*\()", r"self->\1")
    # a unique_ptr member used as a boolean: next to && || ! or as a whole condition, or through static_cast<bool>
    uptr_bool = [Rule("D7.uptr-bool", r"static_cast<bool>\((r|s)\)", r"(self->\1 != 0)"),
                 Rule("D7.uptr-bool", r"(\(|&&|\|\||!|\breturn)\s*(r|s)\s*(?=\)|&&|\|\||;)", r"\1 (self->\2 != 0) "),
                 Rule("D7.stream-state", r"\bs->fail\(\)", "nitro_sbuf_fail(self->s)"),
                 Rule("D7.stream-state", r"\bs->good\(\)", "(!nitro_sbuf_fail(self->s))"),
                 Rule("D7.uncaught-exceptions", r"std::uncaught_exceptions\(\)", "nitro_uncaught_exceptions()"),
                 Rule("D7.uncaught-exceptions", r"std::uncaught_exception\(\)", "(nitro_uncaught_exceptions() > 0)")]
    common = [
        CallRule("D3.std-move", r"std::move\(", lambda m, a: "(%s)" % a[0]),
        Rule("D2.auto", r"\bauto\b", "__auto_type"),
    ]
    u.rules = common
    sself = "struct smart_stream *self"
    u.add(F("ss_ctor", ST, r"smart_stream\(lang::string_ref tag\)", "void ss_ctor(%s, int Severity, size_t tag)" % sself, P510, within=SS, ctor="ss",
            rules=[Rule("D6.set_tag", r"detail::set_tag\(\*r,\s*tag\);", "log_set_tag(self->r, tag);"),
                   Rule("D6.set_severity", r"detail::set_severity<Record>\(\)\(\*r,\s*Severity\);", "log_set_severity(self->r, Severity);"),
                   Rule("D6.will_log", r"logger::will_log\(\*r\)", "logger_will_log(self->r)"),
                   Rule("D7.uptr-reset-new", r"\bs\.reset\(new std::stringstream\(\)\);", "nitro_sbuf_reset(&self->s, nitro_new_sbuf());"),
                   Rule("D7.uptr-reset", r"\br\.reset\(\);", "nitro_record_reset(&self->r, 0);")],
            must_fire=["D6.set_tag", "D6.set_severity", "D6.will_log", "D7.uptr-reset-new", "D7.uptr-reset"]))
    u.add(F("ss_move_ctor", ST, r"smart_stream\(smart_stream&& ss\)", "void ss_move_ctor(%s, struct smart_stream *ss)" % sself, P510, within=SS, ctor="ss"))
    u.add(F("ss_dtor", ST, r"~smart_stream\(\)", "void ss_dtor(%s, int Severity)" % sself, P510, within=SS,
            rules=[Rule("D6.set_timestamp", r"detail::set_timestamp\(\*r\);", "log_set_timestamp(self->r);"),
                   Rule("D7.message-assign", r"\br->message\(\)\s*=\s*s->str\(\);", "self->r->message = nitro_sbuf_str(self->s);"),
                   Rule("D6.logger-log", r"logger::log\(Severity,\s*\*r\);", "logger_log(Severity, self->r);")] + uptr_bool,
            pre=[Rule("D5.member-destructors", r"\Z", "\n    ss_members_dtor(self);   /* ~unique_ptr of s, then of r (rule D5) */\n")],
            must_fire=["D6.set_timestamp", "D7.message-assign", "D6.logger-log"]))
    u.add(F("ss_record", ST, r"Record& record\(\)", "struct nrecord *ss_record(%s)" % sself, P5, within=SS, dflt="0", ret_ref=True, rules=[Rule("D7.uptr-deref", r"\*r\b", "(*self->r)")]))
    u.add(F("ss_sstr", ST, r"std::stringstream& sstr\(\)", "struct nsbuf *ss_sstr(%s)" % sself, P510, within=SS, dflt="0", ret_ref=True, rules=[Rule("D7.uptr-deref", r"\*s\b", "(*self->s)")]))
    u.add(F("ss_bool", ST, r"operator bool\(\) const", "nbool ss_bool(const struct smart_stream *self)", P510, within=SS, dflt="0",
            rules=uptr_bool, must_fire=["D7.uptr-bool"]))
    # the four insertion operators
    call = r"enable_if<nitro::meta::is_callable<T, std::string\(\)>::value,\s*int>::type = 0>\s*"
    ncall = r"enable_if<!nitro::meta::is_callable<T, std::string\(\)>::value,\s*int>::type = 0>\s*"
    ins_rules = [Rule("D6.overload-forward", r"return\s+s\s*<<\s*t\(\);", "return ins_val_lv(s, nitro_call_lazy(t));"),
                 Rule("D6.overload-forward-rv", r"return\s+std::move\(s\)\s*<<\s*t\(\);", "{ ins_val_rv(ret, s, nitro_call_lazy(t)); return; }"),
                 Rule("D6.stream-bool", r"\bif\s*\(\s*s\s*\)", "if (ss_bool(s))"),
                 Rule("D6.stream-bool", r"\bif\s*\(\s*!\s*s\s*\)", "if (!ss_bool(s))"),
                 Rule("D6.stream-insert-lazy", r"\bs\.sstr\(\)\s*<<\s*t\(\);", "nitro_sbuf_put(ss_sstr(s), nitro_call_lazy(t));"),
                 Rule("D6.stream-insert", r"\bs\.sstr\(\)\s*<<\s*t;", "nitro_sbuf_put(ss_sstr(s), t);")]
    lv_ret = Rule("D3.return-ref", r"return\s+s;", "return s;")
    rv_ret = Rule("D3.return-move", r"return\s+\(s\);", "ss_move_ctor(ret, s); return;")
    u.add(F("ins_lazy_lv", ST, call + TPL + r"&\s*operator<<\(" + TPL + r"& s, T t\)", "struct smart_stream *ins_lazy_lv(struct smart_stream *s, size_t t)", P510, dflt="0",
            rules=ins_rules + [lv_ret], must_fire=["D6.stream-bool|D6.overload-forward", "D6.stream-insert-lazy|D6.overload-forward"]))
    u.add(F("ins_lazy_rv", ST, call + TPL + r"\s*operator<<\(" + TPL + r"&& s, T t\)", "void ins_lazy_rv(struct smart_stream *ret, struct smart_stream *s, size_t t)", P510,
            rules=ins_rules, must_fire=["D6.stream-bool|D6.overload-forward-rv", "D6.stream-insert-lazy|D6.overload-forward-rv"]))
    u.functions[-1].rules = ins_rules
    u.add(F("ins_val_rv", ST, ncall + TPL + r"\s*operator<<\(" + TPL + r"&& s, const T& t\)", "void ins_val_rv(struct smart_stream *ret, struct smart_stream *s, size_t t)", P5,
            rules=ins_rules, must_fire=["D6.stream-bool", "D6.stream-insert"]))
    u.add(F("ins_val_lv", ST, ncall + TPL + r"&\s*operator<<\(" + TPL + r"& s, const T& t\)", "struct smart_stream *ins_val_lv(struct smart_stream *s, size_t t)", P5, dflt="0",
            rules=ins_rules + [lv_ret], must_fire=["D6.stream-bool", "D6.stream-insert"]))
    for f in u.functions[-4:]:
        if f.name.endswith("_rv"):
            # unit rule std::move -> identity runs after the function rules: the return is rewritten afterwards
            f.post = [rv_ret]
    # null_stream
    u.add(F("null_ctor", ST, r"null_stream\(lang::string_ref\)", "void null_ctor(struct null_stream *self, size_t tag)", ["C10"], within=r"class\s+null_stream\b"))
    lazy_any = [Rule("D6.any-call-of-the-argument", r"\b(\w+)\(\)", r"nitro_call_lazy(\1)")]
    u.add(F("null_ins_rv", ST, r"null_stream operator<<\(null_stream&& s, const T&\s*(\w*)\)", "struct null_stream null_ins_rv(struct null_stream *s, size_t t)", ["C10"], dflt="(struct null_stream){0}",
            rules=[Rule("D3.return-copy", r"return\s+s;", "return *s;")] + lazy_any))
    u.add(F("null_ins_lv", ST, r"null_stream& operator<<\(null_stream& s, const T&\s*(\w*)\)", "struct null_stream *null_ins_lv(struct null_stream *s, size_t t)", ["C10"], dflt="0", rules=lazy_any))
    # compile-time gate: Severity >= severity_level::NITRO_LOG_MIN_SEVERITY selects smart_stream, else null_stream
    gm = re.search(r"typename detail::actual_stream<(Severity\s*(>=|>|<=|<|==|!=)\s*severity_level::NITRO_LOG_MIN_SEVERITY),", src.text(ST))
    if not gm:
        raise ExtractionError("the compile-time gate `Severity <op> severity_level::NITRO_LOG_MIN_SEVERITY` was not found in actual_stream")
    st = src.text(ST)
    if not re.search(r"struct actual_stream\s*\{\s*typedef smart_stream<Record, Formatter, Sink, Filter, Severity> type;", st) or \
       not re.search(r"struct actual_stream<false, Record, Formatter, Sink, Filter, Severity>\s*\{\s*typedef null_stream type;", st):
        raise ExtractionError("detail::actual_stream no longer maps true -> smart_stream and false -> null_stream")
    u.static_facts.append("detail::actual_stream<true,...>::type is smart_stream, <false,...>::type is null_stream (read from the source on this run)")
    u.prelude += "/* the compile-time gate of actual_stream, as a function of (Severity, NITRO_LOG_MIN_SEVERITY) */\nnbool log_gate(int Severity, int min_severity)\n{ return %s; }\n" % \
        gm.group(1).replace("severity_level::NITRO_LOG_MIN_SEVERITY", "min_severity")
    # logger
    u.add(F("logger_will_log", LG, r"static bool will_log\(Record& r\)", "nbool logger_will_log(struct nrecord *r)", P510, dflt="0",
            rules=[Rule("D6.filter-base", r"instance\(\)\.Filter<Record>::filter\(r\)", "nitro_filter(r)")], must_fire=["D6.filter-base"]))
    u.add(F("logger_log", LG, r"static void log\(severity_level s, Record& r\)", "void logger_log(int s, struct nrecord *r)", P510,
            rules=[Rule("D6.sink-of-format", r"instance\(\)\.Sink::sink\(s,\s*instance\(\)\.Formater<Record>::format\(r\)\);", "{ struct nfmt nitro_f = nitro_format(r); nitro_sink(s, &nitro_f); }")],
            must_fire=["D6.sink-of-format"]))
    for n in ["trace", "debug", "info", "warn", "error", "fatal"]:
        u.add(F("logger_" + n, LG, r"static actual_stream_t<severity_level::%s> %s\(lang::string_ref tag = nullptr\)" % (n, n), "int logger_%s(size_t tag)" % n, P5, dflt="0",
                rules=[Rule("D1.stream-of-severity", r"return\s+actual_stream_t<severity_level::(\w+)>\(tag\);", r"return SEV_\1;   /* constructs the stream type selected for this severity, with tag */")],
                must_fire=["D1.stream-of-severity"]))
    # attribute setters
    u.add(F("log_set_tag", ST, r"void operator\(\)\(Record& r, lang::string_ref tag\)", "void log_set_tag(struct nrecord *r, size_t tag)", P5,
            rules=[Rule("D7.string_ref-bool", r"\bif\s*\(\s*tag\s*\)", "if (tag != 0)"), Rule("D7.attribute", r"\br\.tag\(\)", "r->tag")]))
    u.add(F("log_set_severity", SA, r"void operator\(\)\(Record<Attributes\.\.\.>& r, const severity_level& v\)", "void log_set_severity(struct nrecord *r, int v)", P5,
            rules=[Rule("D7.attribute", r"\br\.severity\(\)", "r->severity")]))
    u.add(F("log_set_timestamp", ST, r"void set_timestamp\(Record& r\)", "void log_set_timestamp(struct nrecord *r)", P5,
            rules=[Rule("D7.attribute", r"\br\.timestamp\(\)", "r->timestamp"), Rule("D7.clock", r"\br\.timestamp_clock_get_time\(\)", "nitro_clock_now()")]))
    # filters
    u.add(F("sevfilter_filter", FS, r"bool filter\(Record& r\) const", "nbool sevfilter_filter(struct nrecord *r)", P5, dflt="0",
            rules=[Rule("D7.attribute", r"\br\.severity\(\)", "r->severity"), Rule("D6.static-member", r"\bmin_severity\(\)", "sevfilter_min_severity()")]))
    u.add(F("sevfilter_min_severity", FS, r"static severity_level min_severity\(\)", "int sevfilter_min_severity(void)", P5, dflt="0", rules=[Rule("D3.static-member", r"\bsev\b", "g_sevfilter_sev")]))
    u.add(F("sevfilter_set_severity", FS, r"static void set_severity\(severity_level new_sev\)", "void sevfilter_set_severity(int new_sev)", P5, rules=[Rule("D3.static-member", r"\bsev\b", "g_sevfilter_sev")]))
    sub = [Rule("D6.base-filter", r"\bF1::filter\(r\)", "nitro_subfilter(1, r)"), Rule("D6.base-filter", r"\bF2::filter\(r\)", "nitro_subfilter(2, r)")]
    for nm, rel in [("andfilter_filter", FA), ("orfilter_filter", FO), ("notfilter_filter", FN)]:
        u.add(F(nm, rel, r"bool filter\(record_type& r\) const", "nbool %s(struct nrecord *r)" % nm, P5, dflt="0", rules=sub, must_fire=["D6.base-filter"]))
    # sequence sink: tuple_foreach(sinks, lambda) (rule D8)
    sq = src.find(SQ, r"void sink\(severity_level sev, const std::string& formatted_record\)")
    body = re.sub(r"\s+", " ", sq["body"]).strip()
    mm = re.match(r"^lang::tuple_foreach\(sinks, \[&sev, &formatted_record\]\(auto& (\w+)\) \{ (.*) \}\);$", body)
    if not mm:
        raise ExtractionError("sequence::sink is no longer one tuple_foreach over `sinks` with a [&sev,&formatted_record] lambda: " + body[:120])
    lam = mm.group(2)
    lam_c, n = re.subn(r"\b%s\.sink\(sev,\s*formatted_record\);" % mm.group(1), "nitro_member_sink(i, sev, formatted_record);", lam)
    if n < 1:
        raise ExtractionError("the lambda of sequence::sink does not forward to the member sink")

    if lam_c.strip() != "nitro_member_sink(i, sev, formatted_record);":
        raise ExtractionError("the lambda of sequence::sink does more than forwarding to the member sink: " + lam)

    class SeqBody:
        name = "D8.lambda-per-tuple-element"

        def apply(self, text):
            return "\n    tf_tuple_foreach(n_sinks, sev, formatted_record);   /* functor := [&](auto& sink) { sink.sink(sev, formatted_record); } */\n", 1
    TF = "include/nitro/lang/tuple_foreach.hpp"
    fe = src.find(TF, r"inline void for_each\(T&& t, F f, seq<Is\.\.\.>\)")
    fb = re.sub(r"\s+", " ", fe["body"]).strip()
    fwd = "for (size_t i = 0; i < n; ++i) { nitro_member_sink(i, sev, rec); }"
    if re.match(r"^auto \w+ = \{ \(f\(std::get<Is>\(t\)\), 0\)\.\.\. \}; \(void\)\w+;$", fb):
        fe_c = "\n    /* pack expansion inside a braced-init-list: evaluated left to right */\n    " + fwd + "\n"
        order = "braced-init-list (sequenced left to right)"
    elif re.match(r"^\w+\(\(f\(std::get<Is>\(t\)\), 0\)\.\.\.\);$", fb):
        fe_c = ("\n    /* pack expansion in function-call arguments: the order of evaluation is unspecified */\n    if (nondet_nbool()) { " + fwd +
                " }\n    else { for (size_t j = n; j > 0; --j) { nitro_member_sink(j - 1, sev, rec); } }\n")
        order = "function-call arguments (unspecified order)"
    else:
        raise ExtractionError("helper::for_each: unknown way of expanding f(std::get<Is>(t))...: " + fb[:120])
    u.static_facts.append("lang::helper::for_each expands f(std::get<Is>(t))... in a " + order)

    class ForEachBody:
        name = "D1.pack-expansion-order"

        def apply(self, text):
            return fe_c, 1
    u.add(F("tf_for_each", TF, r"inline void for_each\(T&& t, F f, seq<Is\.\.\.>\)", "void tf_for_each(size_t n, int sev, const struct nfmt *rec)", P5, pre=[ForEachBody()]))
    u.functions[-1].loops_fixed = True
    u.add(F("tf_tuple_foreach", TF, r"inline void tuple_foreach\(std::tuple<Ts\.\.\.>& t, F f\)", "void tf_tuple_foreach(size_t n, int sev, const struct nfmt *rec)", P5,
            rules=[Rule("D1.index-sequence", r"helper::for_each\(t,\s*f,\s*helper::gen_seq<sizeof\.\.\.\(Ts\)>\(\)\);", "tf_for_each(n, sev, rec);")], must_fire=["D1.index-sequence"]))
    u.add(F("sequence_sink", SQ, r"void sink\(severity_level sev, const std::string& formatted_record\)", "void sequence_sink(size_t n_sinks, int sev, const struct nfmt *formatted_record)", P5, pre=[SeqBody()]))
    # thread-safe sinks
    for nm, rel, acc, stream in [("stdout_mt", SO, "std_out_mutex", "std::cout"), ("stderr_mt", SE, "std_err_mutex", "std::cerr")]:
        u.add(F(nm + "_mutex", rel, r"std::mutex& %s\(\)" % acc, "struct nmutex *%s_mutex(void)" % nm, P59, dflt="0", ret_ref=True,
                rules=[Rule("D7.mutex-decl", r"\bstatic std::mutex (\w+);", r"static struct nmutex \1;"), Rule("D7.mutex-decl", r"(?<!static )\bstd::mutex (\w+);", r"struct nmutex \1;")]))
        u.add(F(nm + "_sink", rel, r"void sink\(severity_level\s*\w*, const std::string& formatted_record\)", "void %s_sink(int sev, const struct nfmt *formatted_record)" % nm, P59,
                pre=[Rule("D3.param-name", r"\bseverity\b(?!_)", "sev"), Rule("D7.severity-constant", r"severity_level::(\w+)", r"SEV_\1")],
                rules=[Rule("D5.lock_guard", r"std::lock_guard<std::mutex>\s+(\w+)\(%s\(\)\);" % acc, r"struct nmutex *\1 = %s_mutex(); nmutex_lock(\1);   /* unlocked where \1 goes out of scope */" % nm),
                       Rule("D5.unique_lock-deferred", r"std::unique_lock<std::mutex>\s+(\w+)\(%s\(\),\s*std::defer_lock\);" % acc,
                            r"struct nmutex *\1 = %s_mutex(); nbool \1_owns = 0;   /* released if owned where \1 goes out of scope */" % nm),
                       Rule("D5.unique_lock-try_to_lock", r"std::unique_lock<std::mutex>\s+(\w+)\(%s\(\),\s*std::try_to_lock\);" % acc,
                            r"struct nmutex *\1 = %s_mutex(); nbool \1_owns = 0;   /* released if owned where \1 goes out of scope */ \1_owns = nmutex_try_lock(\1);" % nm),
                       Rule("D5.unique_lock-lock", r"\b(\w+)\.lock\(\);", r"{ nmutex_lock(\1); \1_owns = 1; }"),
                       Rule("D5.unique_lock-try_lock", r"\b(\w+)\.try_lock\(\);", r"{ \1_owns = nmutex_try_lock(\1); }"),
                       Rule("D5.lock_guard-temporary", r"std::lock_guard<std::mutex>\s*\(%s\(\)\);" % acc, "{ struct nmutex *nitro_t = %s_mutex(); nmutex_lock(nitro_t); nmutex_unlock(nitro_t); }   /* unnamed temporary: unlocked at once */" % nm),
                       Rule("D7.stream-write-flush", re.escape(stream) + r"\s*<<\s*formatted_record\s*<<\s*std::flush;", "nstream_write(formatted_record); nstream_flush();"),
                       Rule("D7.stream-write", re.escape(stream) + r"\s*<<\s*formatted_record;", "nstream_write(formatted_record);"),
                       Rule("D7.stream-flush", re.escape(stream) + r"\s*<<\s*std::flush;", "nstream_flush();")],
                must_fire=["D7.stream-write|D7.stream-write-flush"]))
        u.functions[-1].no_replace = [nm + "_mutex"]
        u.functions[-1].harness = """void h_%s_sink(void)
{
    NITRO_HAVOC;
    nitro_exc = 0;
    g_stream_mutex = %s_mutex();          /* the mutex a concurrent sink call takes */
    g_stream_mutex->held = 0;
    struct nfmt *f = malloc(sizeof(*f));
    __CPROVER_assume(f != 0);
    %s_sink(nondet_int(), f);
    NITRO_CANARIES;
}
""" % (nm, nm, nm)
        u.functions[-1].post = [ScopeEnd("D5.lock_guard-scope-end", r"nmutex_lock\((\w+)\);   /\* unlocked where", "nmutex_unlock(%s);   /* ~lock_guard */"),
                                ScopeEnd("D5.unique_lock-scope-end", r"nbool (\w+)_owns = 0;   /\* released if owned", "if (%s_owns) nmutex_unlock(%s);   /* ~unique_lock */")]
    u.stubs = ["nitro_filter", "nitro_format", "nitro_sink", "nitro_call_lazy", "nitro_sbuf_put", "nitro_subfilter", "nitro_member_sink", "nstream_write", "nstream_flush", "nmutex_lock", "nmutex_unlock", "nmutex_try_lock", "nitro_clock_now", "nitro_uncaught_exceptions", "nitro_sbuf_fail"]
    u.trusted = [
        "extraction rules D1-D9: Record := nrecord, Severity template parameter := run-time parameter, Formatter/Sink/Filter base classes := stubs counting their calls",
        "std::unique_ptr<Record>/<std::stringstream>: move nulls the source, reset deletes once (stub bodies); operator<< on a stringstream appends the item's text as one piece (nitro_sbuf_put)",
        "C++ destroys the temporaries of a full expression in reverse order of construction (encoded in the statement lemma harness)",
        "lang::tuple_foreach calls the functor once per tuple element in index order (initializer-list evaluation order)",
        "C09: std::mutex provides mutual exclusion and function-local statics are initialised thread-safely; interleavings themselves are NOT explored (sequential proof of the lock discipline only)",
    ]
    u.lemmas = [
        Lemma("lemma_statement_base", P510, replace=["ss_ctor", "ss_dtor"], note="ctor establishes Inv(0); a statement without insertions emits one record iff enabled"),
        Lemma("lemma_statement_step", P510, replace=["ss_dtor", "ins_val_rv", "ins_lazy_rv", "ins_val_lv", "ins_lazy_lv"],
              note="one insertion (value or callable; one-expression or named-stream form) takes Inv(i) to Inv(i+1); moved-from temporaries emit nothing"),
        Lemma("lemma_statement_final", P510, replace=["ss_dtor"], note="the owner's destructor emits exactly one record iff enabled, message = the k streamed items in order"),
        Lemma("lemma_severity_order_and_gate", P510, replace=[], note="the enum order is trace<debug<info<warn<error<fatal and the gate is `at or above the compile-time minimum`, for all 36 pairs"),
        Lemma("lemma_mt_sink_lock_discipline", ["C09"], replace=["nmutex_lock", "nmutex_unlock", "nstream_write", "nstream_flush"],
              note="two successive sink calls use the same mutex object and leave it unlocked; every write happens while it is held"),
    ]
    return u
