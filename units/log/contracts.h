/* Contracts for nitro::log (C05, C09, C10). */
#ifndef LOG_CONTRACTS_H
#define LOG_CONTRACTS_H
#include "nitro_rt.h"
#include "kf_gen.h"
#include "enf_gen.h"

/* the documented severity order (property C05): trace < debug < info < warn < error < fatal */
enum { LVL_TRACE = 0, LVL_DEBUG = 1, LVL_INFO = 2, LVL_WARN = 3, LVL_ERROR = 4, LVL_FATAL = 5 };

struct nsbuf { size_t count; size_t w_id; };             /* std::stringstream: pieces written; id of piece number g_ow */
struct nrecord { int severity; size_t tag; struct nsbuf message; size_t timestamp; };
struct nfmt { int severity; size_t tag; struct nsbuf message; };   /* the formatted record (a function of the record) */
struct smart_stream { struct nrecord *r; struct nsbuf *s; };
struct null_stream { char unused; };
struct nmutex { nbool held; };

extern size_t g_ow;
extern size_t g_filter_calls, g_format_calls, g_sink_calls, g_lazy_calls, g_live_records, g_live_bufs;
extern nbool g_filter_result; extern int g_filter_sev; extern size_t g_filter_tag;     /* last filter decision and what it saw */
extern int g_sink_sev; extern struct nfmt g_sink_rec;                                   /* last record that reached the sink */
extern int g_sevfilter_sev;                                                            /* severity_filter<>::sev */
extern nbool g_sub1, g_sub2;                                                           /* results of the sub-filters F1, F2 */
extern size_t g_seq_next;                                                              /* sequence: index of the member sink expected next */
extern size_t g_stream_writes, g_stream_flushes; extern struct nmutex *g_stream_mutex;  /* the process-wide stream and the mutex guarding it */
#define NITRO_UNIT_GLOBALS size_t g_ow, g_filter_calls, g_format_calls, g_sink_calls, g_lazy_calls, g_live_records, g_live_bufs; nbool g_filter_result; int g_filter_sev; \
   size_t g_filter_tag; int g_sink_sev; struct nfmt g_sink_rec; int g_sevfilter_sev; nbool g_sub1, g_sub2; size_t g_seq_next, g_stream_writes, g_stream_flushes; struct nmutex *g_stream_mutex;
nbool nondet_nbool(void); int nondet_int(void);
#define NITRO_HAVOC_UNIT g_ow = nondet_size_t(); g_filter_calls = nondet_size_t(); g_format_calls = nondet_size_t(); g_sink_calls = nondet_size_t(); g_lazy_calls = nondet_size_t(); \
   g_live_records = nondet_size_t(); g_live_bufs = nondet_size_t(); g_filter_result = nondet_nbool(); g_sevfilter_sev = nondet_int(); g_sub1 = nondet_nbool(); g_sub2 = nondet_nbool(); \
   g_seq_next = nondet_size_t(); g_stream_writes = nondet_size_t(); g_stream_flushes = nondet_size_t();
#define L_OBJ(p) __CPROVER_is_fresh(p, sizeof(*(p)))
#define L_OBJ_OR_OK(fn, p) ((NITRO_ENF_##fn && L_OBJ(p)) || (!NITRO_ENF_##fn && __CPROVER_rw_ok(p, sizeof(*(p)))))
#define L_OBJ_OR_ROK(fn, p) ((NITRO_ENF_##fn && L_OBJ(p)) || (!NITRO_ENF_##fn && __CPROVER_r_ok(p, sizeof(*(p)))))
#define L_VALID_SEV(s) ((s) >= 0 && (s) <= 5)

/* ---- stubs with bodies: unique_ptr<Record>, unique_ptr<std::stringstream> ---- */
static inline struct nrecord *nitro_new_record(void)
{
    struct nrecord *p = malloc(sizeof(*p));
    __CPROVER_assume(p != 0);            /* ASSUMPTION: allocation succeeds */
    p->severity = LVL_TRACE; p->tag = 0; p->message.count = 0; p->message.w_id = 0; p->timestamp = 0;   /* default-constructed attributes */
    g_live_records++;
    return p;
}
static inline struct nsbuf *nitro_new_sbuf(void)
{
    struct nsbuf *p = malloc(sizeof(*p));
    __CPROVER_assume(p != 0);            /* ASSUMPTION: allocation succeeds */
    p->count = 0; p->w_id = 0;
    g_live_bufs++;
    return p;
}
static inline void nitro_record_reset(struct nrecord **u, struct nrecord *p) { struct nrecord *old = *u; *u = p; if (old) { free(old); g_live_records--; } }
static inline void nitro_sbuf_reset(struct nsbuf **u, struct nsbuf *p) { struct nsbuf *old = *u; *u = p; if (old) { free(old); g_live_bufs--; } }
static inline void *nitro_uptr_take(void **u) { void *p = *u; *u = 0; return p; }
static inline struct nsbuf nitro_sbuf_str(const struct nsbuf *s) { return *s; }
/* members are destroyed in reverse order of declaration: s, then r */
static inline void ss_members_dtor(struct smart_stream *self) { nitro_sbuf_reset(&self->s, 0); nitro_record_reset(&self->r, 0); }

/* ---- assumed contracts: the Filter / Formatter / Sink base classes, lazily evaluated callables, streams, mutex ---- */
nbool nitro_filter(struct nrecord *r)
__CPROVER_requires(__CPROVER_r_ok(r, sizeof(*r)))
__CPROVER_assigns(g_filter_calls, g_filter_sev, g_filter_tag)
__CPROVER_ensures(__CPROVER_return_value == g_filter_result && g_filter_calls == __CPROVER_old(g_filter_calls) + 1 && g_filter_sev == r->severity && g_filter_tag == r->tag);
struct nfmt nitro_format(struct nrecord *r)
__CPROVER_requires(__CPROVER_r_ok(r, sizeof(*r)))
__CPROVER_assigns(g_format_calls)
__CPROVER_ensures(g_format_calls == __CPROVER_old(g_format_calls) + 1 && __CPROVER_return_value.severity == r->severity && __CPROVER_return_value.tag == r->tag &&
                  __CPROVER_return_value.message.count == r->message.count && __CPROVER_return_value.message.w_id == r->message.w_id);
void nitro_sink(int sev, const struct nfmt *f)
__CPROVER_requires(__CPROVER_r_ok(f, sizeof(*f)))
__CPROVER_assigns(g_sink_calls, g_sink_sev, g_sink_rec)
__CPROVER_ensures(g_sink_calls == __CPROVER_old(g_sink_calls) + 1 && g_sink_sev == sev && g_sink_rec.severity == f->severity && g_sink_rec.tag == f->tag &&
                  g_sink_rec.message.count == f->message.count && g_sink_rec.message.w_id == f->message.w_id);
size_t nitro_call_lazy(size_t callable)                  /* t(): the text the callable yields is named after the callable */
__CPROVER_assigns(g_lazy_calls)
__CPROVER_ensures(g_lazy_calls == __CPROVER_old(g_lazy_calls) + 1 && __CPROVER_return_value == callable);
void nitro_sbuf_put(struct nsbuf *b, size_t item)        /* stream << item */
__CPROVER_requires(__CPROVER_rw_ok(b, sizeof(*b)))
__CPROVER_assigns(*b)
__CPROVER_ensures(b->count == __CPROVER_old(b->count) + 1)
__CPROVER_ensures(__CPROVER_old(b->count) == g_ow ==> b->w_id == item)
__CPROVER_ensures(__CPROVER_old(b->count) != g_ow ==> b->w_id == __CPROVER_old(b->w_id));
size_t nitro_clock_now(void) __CPROVER_requires(1) __CPROVER_assigns() __CPROVER_ensures(1);
nbool nitro_subfilter(int which, struct nrecord *r)
__CPROVER_assigns()
__CPROVER_ensures(__CPROVER_return_value == (which == 1 ? g_sub1 : g_sub2));
void nitro_member_sink(size_t i, int sev, const struct nfmt *f)
__CPROVER_requires(i == g_seq_next)                      /*@ member_sinks_called_once_each_in_declaration_order */
__CPROVER_assigns(g_seq_next)
__CPROVER_ensures(g_seq_next == i + 1);
void nmutex_lock(struct nmutex *m)
__CPROVER_requires(__CPROVER_rw_ok(m, sizeof(*m)) && !m->held)   /*@ not_locked_twice */
__CPROVER_assigns(m->held)
__CPROVER_ensures(m->held);
nbool nmutex_try_lock(struct nmutex *m)                  /* may fail when another thread holds the mutex */
__CPROVER_requires(__CPROVER_rw_ok(m, sizeof(*m)))
__CPROVER_assigns(m->held)
__CPROVER_ensures(__CPROVER_return_value ==> m->held)
__CPROVER_ensures(!__CPROVER_return_value ==> m->held == __CPROVER_old(m->held));
int nitro_uncaught_exceptions(void)                      /* the statement may run while an exception unwinds the stack */
__CPROVER_assigns()
__CPROVER_ensures(__CPROVER_return_value >= 0);
nbool nitro_sbuf_fail(const struct nsbuf *b)             /* an earlier insertion may have set failbit/badbit */
__CPROVER_assigns()
__CPROVER_ensures(1);
void nmutex_unlock(struct nmutex *m)
__CPROVER_requires(__CPROVER_rw_ok(m, sizeof(*m)) && m->held)    /*@ only_a_held_mutex_is_released */
__CPROVER_assigns(m->held)
__CPROVER_ensures(!m->held);
void nstream_write(const struct nfmt *f)
__CPROVER_requires(g_stream_mutex != 0 && g_stream_mutex->held)  /*@ every_write_happens_while_the_mutex_is_held */
__CPROVER_assigns(g_stream_writes)
__CPROVER_ensures(g_stream_writes == __CPROVER_old(g_stream_writes) + 1);
void nstream_flush(void)
__CPROVER_requires(g_stream_mutex != 0 && g_stream_mutex->held)  /*@ the_flush_happens_while_the_mutex_is_held */
__CPROVER_assigns(g_stream_flushes)
__CPROVER_ensures(g_stream_flushes == __CPROVER_old(g_stream_flushes) + 1);

/* ======================= smart_stream ======================= */
/* invariant: either live (owns a record and a buffer) or empty (owns nothing) */
#define SS_WF(x) (((x)->r == 0 && (x)->s == 0) || (__CPROVER_is_fresh((x)->r, sizeof(struct nrecord)) && __CPROVER_is_fresh((x)->s, sizeof(struct nsbuf))))
#define SS_WF_POST(x) (((x)->r == 0) == ((x)->s == 0))
#define COUNTERS_UNCHANGED (g_filter_calls == __CPROVER_old(g_filter_calls) && g_format_calls == __CPROVER_old(g_format_calls) && g_sink_calls == __CPROVER_old(g_sink_calls) && g_lazy_calls == __CPROVER_old(g_lazy_calls))

void ss_ctor(struct smart_stream *self, int Severity, size_t tag)
__CPROVER_requires(nitro_exc == 0 && L_OBJ_OR_OK(ss_ctor, self) && L_VALID_SEV(Severity))
__CPROVER_assigns(*self, g_filter_calls, g_filter_sev, g_filter_tag, g_live_records, g_live_bufs)
__CPROVER_ensures(nitro_exc == 0 && SS_WF_POST(self))
__CPROVER_ensures((self->s != 0) == g_filter_result)                                             /*@ live_iff_the_runtime_filter_accepts */
__CPROVER_ensures(g_filter_calls == __CPROVER_old(g_filter_calls) + 1 && g_filter_sev == Severity && (tag != 0 ==> g_filter_tag == tag))   /*@ filter_sees_the_statements_severity_and_tag */
__CPROVER_ensures(self->r != 0 ==> (__CPROVER_is_fresh(self->r, sizeof(struct nrecord)) && __CPROVER_is_fresh(self->s, sizeof(struct nsbuf)) &&
                  self->r->severity == Severity && (tag != 0 ==> self->r->tag == tag) && self->s->count == 0))   /*@ record_carries_severity_and_tag_buffer_empty */
__CPROVER_ensures(g_live_records == __CPROVER_old(g_live_records) + (self->r != 0 ? 1 : 0) && g_live_bufs == __CPROVER_old(g_live_bufs) + (self->s != 0 ? 1 : 0))   /*@ rejected_statement_keeps_nothing */
__CPROVER_ensures(g_format_calls == __CPROVER_old(g_format_calls) && g_sink_calls == __CPROVER_old(g_sink_calls));

void ss_move_ctor(struct smart_stream *self, struct smart_stream *ss)
__CPROVER_requires(nitro_exc == 0 && L_OBJ_OR_OK(ss_move_ctor, self) && L_OBJ_OR_OK(ss_move_ctor, ss) && (!NITRO_ENF_ss_move_ctor || SS_WF(ss)))
__CPROVER_assigns(*self, *ss)
__CPROVER_ensures(nitro_exc == 0 && __CPROVER_pointer_equals(self->r, __CPROVER_old(ss->r)) && __CPROVER_pointer_equals(self->s, __CPROVER_old(ss->s)))   /*@ target_owns_what_the_source_owned */
__CPROVER_ensures(ss->r == 0 && ss->s == 0);                                                     /*@ source_owns_nothing */

void ss_dtor(struct smart_stream *self, int Severity)
__CPROVER_requires(nitro_exc == 0 && L_OBJ_OR_OK(ss_dtor, self) && ((NITRO_ENF_ss_dtor && SS_WF(self)) || (!NITRO_ENF_ss_dtor && SS_WF_POST(self))))
__CPROVER_assigns(*self, g_format_calls, g_sink_calls, g_sink_sev, g_sink_rec, g_live_records, g_live_bufs; self->r != 0: __CPROVER_object_whole(self->r); self->s != 0: __CPROVER_object_whole(self->s))
__CPROVER_frees(self->r, self->s)
__CPROVER_ensures(nitro_exc == 0 && self->r == 0 && self->s == 0)
__CPROVER_ensures(g_sink_calls == __CPROVER_old(g_sink_calls) + (__CPROVER_old(self->r) != 0 ? 1 : 0))   /*@ one_record_to_the_sink_iff_live */
__CPROVER_ensures(g_format_calls == __CPROVER_old(g_format_calls) + (__CPROVER_old(self->r) != 0 ? 1 : 0))   /*@ formatter_called_iff_live */
__CPROVER_ensures(__CPROVER_old(self->r) != 0 ==> (g_sink_sev == Severity && g_sink_rec.severity == __CPROVER_old(self->r->severity) && g_sink_rec.tag == __CPROVER_old(self->r->tag)))   /*@ delivered_record_carries_severity_and_tag */
__CPROVER_ensures(__CPROVER_old(self->r) != 0 ==> (g_sink_rec.message.count == __CPROVER_old(self->s->count) && g_sink_rec.message.w_id == __CPROVER_old(self->s->w_id)))   /*@ message_is_everything_streamed_in_order */
__CPROVER_ensures(g_live_records == __CPROVER_old(g_live_records) - (__CPROVER_old(self->r) != 0 ? 1 : 0) && g_live_bufs == __CPROVER_old(g_live_bufs) - (__CPROVER_old(self->s) != 0 ? 1 : 0));

struct nrecord *ss_record(struct smart_stream *self)
__CPROVER_requires(nitro_exc == 0 && L_OBJ(self) && SS_WF(self) && self->r != 0)
__CPROVER_assigns()
__CPROVER_ensures(__CPROVER_return_value == self->r);
struct nsbuf *ss_sstr(struct smart_stream *self)
__CPROVER_requires(nitro_exc == 0 && L_OBJ_OR_ROK(ss_sstr, self) && (!NITRO_ENF_ss_sstr || SS_WF(self)) && self->s != 0)
__CPROVER_assigns()
__CPROVER_ensures(__CPROVER_pointer_equals(__CPROVER_return_value, self->s));
nbool ss_bool(const struct smart_stream *self)
__CPROVER_requires(nitro_exc == 0 && L_OBJ_OR_ROK(ss_bool, self))
__CPROVER_assigns()
__CPROVER_ensures(__CPROVER_return_value == (self->s != 0));

/* the insertion operators: if the stream is live the item is appended once (a callable is called exactly once, here);
 * otherwise nothing happens and a callable is not called */
#define INS_COMMON(fn, S, LAZY) \
__CPROVER_requires(nitro_exc == 0 && L_OBJ_OR_OK(fn, S) && ((NITRO_ENF_##fn && SS_WF(S)) || (!NITRO_ENF_##fn && SS_WF_POST(S) && (S->s == 0 || __CPROVER_rw_ok(S->s, sizeof(struct nsbuf))))))
#define INS_POST(BUF, LAZY) \
__CPROVER_ensures(g_lazy_calls == __CPROVER_old(g_lazy_calls) + ((LAZY) && __CPROVER_old(s->s) != 0 ? 1 : 0))   /*@ callable_called_once_iff_live */ \
__CPROVER_ensures(__CPROVER_old(s->s) != 0 ==> (BUF->count == __CPROVER_old(s->s->count) + 1 && (__CPROVER_old(s->s->count) == g_ow ==> BUF->w_id == t) && \
                  (__CPROVER_old(s->s->count) != g_ow ==> BUF->w_id == __CPROVER_old(s->s->w_id))))   /*@ item_appended_once_at_the_end */ \
__CPROVER_ensures(g_filter_calls == __CPROVER_old(g_filter_calls) && g_format_calls == __CPROVER_old(g_format_calls) && g_sink_calls == __CPROVER_old(g_sink_calls))

struct smart_stream *ins_lazy_lv(struct smart_stream *s, size_t t)
INS_COMMON(ins_lazy_lv, s, 1)
__CPROVER_assigns(g_lazy_calls; s->s != 0: *(s->s))
__CPROVER_ensures(__CPROVER_return_value == s && s->r == __CPROVER_old(s->r) && s->s == __CPROVER_old(s->s))   /*@ ownership_stays */
INS_POST(s->s, 1);
struct smart_stream *ins_val_lv(struct smart_stream *s, size_t t)
INS_COMMON(ins_val_lv, s, 0)
__CPROVER_assigns(g_lazy_calls; s->s != 0: *(s->s))
__CPROVER_ensures(__CPROVER_return_value == s && s->r == __CPROVER_old(s->r) && s->s == __CPROVER_old(s->s))   /*@ ownership_stays */
INS_POST(s->s, 0);
void ins_lazy_rv(struct smart_stream *ret, struct smart_stream *s, size_t t)
INS_COMMON(ins_lazy_rv, s, 1)
__CPROVER_requires(L_OBJ_OR_OK(ins_lazy_rv, ret))
__CPROVER_assigns(*ret, *s, g_lazy_calls; s->s != 0: *(s->s))
__CPROVER_ensures(__CPROVER_pointer_equals(ret->r, __CPROVER_old(s->r)) && __CPROVER_pointer_equals(ret->s, __CPROVER_old(s->s)) && s->r == 0 && s->s == 0)   /*@ ownership_goes_to_the_returned_stream */
INS_POST(ret->s, 1);
void ins_val_rv(struct smart_stream *ret, struct smart_stream *s, size_t t)
INS_COMMON(ins_val_rv, s, 0)
__CPROVER_requires(L_OBJ_OR_OK(ins_val_rv, ret))
__CPROVER_assigns(*ret, *s, g_lazy_calls; s->s != 0: *(s->s))
__CPROVER_ensures(__CPROVER_pointer_equals(ret->r, __CPROVER_old(s->r)) && __CPROVER_pointer_equals(ret->s, __CPROVER_old(s->s)) && s->r == 0 && s->s == 0)   /*@ ownership_goes_to_the_returned_stream */
INS_POST(ret->s, 0);

/* ======================= null_stream: discards every insertion, evaluates nothing ======================= */
void null_ctor(struct null_stream *self, size_t tag)
__CPROVER_requires(nitro_exc == 0 && L_OBJ(self))
__CPROVER_assigns()
__CPROVER_ensures(nitro_exc == 0);
struct null_stream null_ins_rv(struct null_stream *s, size_t t)
__CPROVER_requires(nitro_exc == 0 && L_OBJ(s))
__CPROVER_assigns()                                                                               /*@ discards_the_item_and_calls_nothing */
__CPROVER_ensures(nitro_exc == 0);
struct null_stream *null_ins_lv(struct null_stream *s, size_t t)
__CPROVER_requires(nitro_exc == 0 && L_OBJ(s))
__CPROVER_assigns()                                                                               /*@ discards_the_item_and_calls_nothing */
__CPROVER_ensures(nitro_exc == 0 && __CPROVER_return_value == s);

/* ======================= logger ======================= */
nbool logger_will_log(struct nrecord *r)
__CPROVER_requires(nitro_exc == 0 && L_OBJ_OR_ROK(logger_will_log, r))
__CPROVER_assigns(g_filter_calls, g_filter_sev, g_filter_tag)
__CPROVER_ensures(__CPROVER_return_value == g_filter_result && g_filter_calls == __CPROVER_old(g_filter_calls) + 1 && g_filter_sev == r->severity && g_filter_tag == r->tag);   /*@ asks_the_configured_filter_once */
void logger_log(int s, struct nrecord *r)
__CPROVER_requires(nitro_exc == 0 && L_OBJ_OR_ROK(logger_log, r))
__CPROVER_assigns(g_format_calls, g_sink_calls, g_sink_sev, g_sink_rec)
__CPROVER_ensures(g_format_calls == __CPROVER_old(g_format_calls) + 1 && g_sink_calls == __CPROVER_old(g_sink_calls) + 1)   /*@ formats_once_and_sinks_once */
__CPROVER_ensures(g_sink_sev == s && g_sink_rec.severity == r->severity && g_sink_rec.tag == r->tag && g_sink_rec.message.count == r->message.count && g_sink_rec.message.w_id == r->message.w_id);   /*@ the_sink_gets_the_formatted_record_unaltered */
#define LOGGER_ENTRY(name, LVL) \
int logger_##name(size_t tag) \
__CPROVER_requires(nitro_exc == 0) \
__CPROVER_assigns() \
__CPROVER_ensures(__CPROVER_return_value == (LVL))                                                 /*@ statement_of_this_name_has_this_severity */
LOGGER_ENTRY(trace, LVL_TRACE); LOGGER_ENTRY(debug, LVL_DEBUG); LOGGER_ENTRY(info, LVL_INFO);
LOGGER_ENTRY(warn, LVL_WARN); LOGGER_ENTRY(error, LVL_ERROR); LOGGER_ENTRY(fatal, LVL_FATAL);

void log_set_tag(struct nrecord *r, size_t tag)
__CPROVER_requires(nitro_exc == 0 && L_OBJ_OR_OK(log_set_tag, r))
__CPROVER_assigns(r->tag)
__CPROVER_ensures(tag != 0 ==> r->tag == tag)
__CPROVER_ensures(tag == 0 ==> r->tag == __CPROVER_old(r->tag));
void log_set_severity(struct nrecord *r, int v)
__CPROVER_requires(nitro_exc == 0 && L_OBJ_OR_OK(log_set_severity, r))
__CPROVER_assigns(r->severity)
__CPROVER_ensures(r->severity == v);
void log_set_timestamp(struct nrecord *r)
__CPROVER_requires(nitro_exc == 0 && L_OBJ_OR_OK(log_set_timestamp, r))
__CPROVER_assigns(r->timestamp)
__CPROVER_ensures(nitro_exc == 0 && r->severity == __CPROVER_old(r->severity) && r->tag == __CPROVER_old(r->tag));   /*@ only_the_timestamp_changes */

/* ======================= filters ======================= */
nbool sevfilter_filter(struct nrecord *r)
__CPROVER_requires(nitro_exc == 0 && L_OBJ(r))
__CPROVER_assigns()
__CPROVER_ensures(__CPROVER_return_value == (r->severity >= g_sevfilter_sev));                      /*@ accepts_at_or_above_the_threshold */
int sevfilter_min_severity(void)
__CPROVER_assigns()
__CPROVER_ensures(__CPROVER_return_value == g_sevfilter_sev);
void sevfilter_set_severity(int new_sev)
__CPROVER_assigns(g_sevfilter_sev)
__CPROVER_ensures(g_sevfilter_sev == new_sev);
nbool andfilter_filter(struct nrecord *r)
__CPROVER_requires(nitro_exc == 0 && L_OBJ(r))
__CPROVER_assigns()
__CPROVER_ensures(__CPROVER_return_value == (g_sub1 && g_sub2));                                   /*@ and_of_both */
nbool orfilter_filter(struct nrecord *r)
__CPROVER_requires(nitro_exc == 0 && L_OBJ(r))
__CPROVER_assigns()
__CPROVER_ensures(__CPROVER_return_value == (g_sub1 || g_sub2));                                   /*@ or_of_both */
nbool notfilter_filter(struct nrecord *r)
__CPROVER_requires(nitro_exc == 0 && L_OBJ(r))
__CPROVER_assigns()
__CPROVER_ensures(__CPROVER_return_value == !g_sub1);                                              /*@ negation */

/* ======================= sequence sink ======================= */
void sequence_sink(size_t n_sinks, int sev, const struct nfmt *formatted_record)
__CPROVER_requires(nitro_exc == 0 && L_OBJ(formatted_record) && g_seq_next == 0 && n_sinks <= 64)
__CPROVER_assigns(g_seq_next)
__CPROVER_ensures(g_seq_next == n_sinks);                                                         /*@ forwards_once_to_each_member_in_declaration_order */
void tf_for_each(size_t n, int sev, const struct nfmt *rec)
__CPROVER_requires(nitro_exc == 0 && L_OBJ_OR_ROK(tf_for_each, rec) && g_seq_next == 0 && n <= 64)
__CPROVER_assigns(g_seq_next)
__CPROVER_ensures(g_seq_next == n);                                                               /*@ functor_applied_once_per_element_in_index_order */
void tf_tuple_foreach(size_t n, int sev, const struct nfmt *rec)
__CPROVER_requires(nitro_exc == 0 && L_OBJ_OR_ROK(tf_tuple_foreach, rec) && g_seq_next == 0 && n <= 64)
__CPROVER_assigns(g_seq_next)
__CPROVER_ensures(g_seq_next == n);                                                               /*@ functor_applied_once_per_element_in_index_order */
#define NITRO_LOOP_tf_for_each_1 \
  __CPROVER_assigns(i, g_seq_next) \
  __CPROVER_loop_invariant(i <= n && g_seq_next == i) \
  __CPROVER_decreases(n - i)
#define NITRO_LOOP_tf_for_each_2 \
  __CPROVER_assigns(j, g_seq_next) \
  __CPROVER_loop_invariant(j <= n) \
  __CPROVER_decreases(j)

/* ======================= thread-safe sinks: lock discipline (C09) ======================= */
/* g_stream_mutex is the mutex every other thread's sink call would take: the harness obtains it from the accessor
 * BEFORE the call under verification, so a sink that locks a different object (or none) writes without holding it. */
#define MT_SINK(name) \
struct nmutex *name##_mutex(void) \
__CPROVER_assigns() \
__CPROVER_ensures(__CPROVER_return_value != 0);   /*@ a_mutex_object */ \
void name##_sink(int sev, const struct nfmt *formatted_record) \
__CPROVER_requires(nitro_exc == 0 && __CPROVER_r_ok(formatted_record, sizeof(*formatted_record))) \
__CPROVER_requires(g_stream_mutex != 0 && __CPROVER_rw_ok(g_stream_mutex, sizeof(struct nmutex)) && !g_stream_mutex->held) \
__CPROVER_assigns(g_stream_writes, g_stream_flushes, g_stream_mutex->held) \
__CPROVER_ensures(!g_stream_mutex->held)                                                           /*@ mutex_released_on_return */ \
__CPROVER_ensures(g_stream_writes == __CPROVER_old(g_stream_writes) + 1)                            /*@ exactly_one_write_of_the_record */
MT_SINK(stdout_mt);
MT_SINK(stderr_mt);
#endif
