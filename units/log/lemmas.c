/* Statement lemmas for C05 / C10: every library call below is replaced by its contract. */
size_t nondet_size_t(void);
#define ITEM_IS_LAZY(i) (lazy_from <= (i))     /* items lazy_from..k-1 are callables, the others plain values (any split) */

/* A log statement is  ctor ; k insertions ; destructors.  Invariant Inv(i) of the stream that currently owns the record:
 *   disabled: owns nothing, no formatter/sink/callable call so far;
 *   enabled : owns record (severity, tag of the statement) and buffer with exactly the i items streamed so far, in order
 *             (witness piece g_ow), callables called once each.
 * base (ctor establishes Inv(0)), step (one insertion of either kind, in either syntactic form, takes Inv(i) to Inv(i+1);
 * the moved-from temporary of the one-expression form emits nothing when it dies, whenever that is) and final step
 * (the destructor of the owner emits exactly one record iff enabled, with message = the k items) are checked here for an
 * ARBITRARY i and state; the induction over k is the usual meta-step, so the number of streamed items is unbounded. */
static void lemma_arbitrary_stream(struct smart_stream *x, nbool live, int sev, size_t tag, size_t i, size_t w_item)
{
    x->r = 0; x->s = 0;
    if (live)
    {
        x->r = malloc(sizeof(struct nrecord)); x->s = malloc(sizeof(struct nsbuf));
        __CPROVER_assume(x->r != 0 && x->s != 0);
        x->r->severity = sev; x->r->tag = tag; x->s->count = i; x->s->w_id = w_item;
    }
}
void h_lemma_statement_base(void)
{
    NITRO_HAVOC;
    nitro_exc = 0;
    int sev = nondet_int(); size_t tag = nondet_size_t();
    __CPROVER_assume(L_VALID_SEV(sev));
    size_t filter0 = g_filter_calls, format0 = g_format_calls, sink0 = g_sink_calls, lazy0 = g_lazy_calls;
    struct smart_stream A;
    ss_ctor(&A, sev, tag);
    nbool enabled = g_filter_result;
    __CPROVER_assert(g_filter_calls == filter0 + 1 && g_filter_sev == sev, "the runtime filter is asked exactly once, about the statement's severity");
    __CPROVER_assert(g_format_calls == format0 && g_sink_calls == sink0 && g_lazy_calls == lazy0, "constructing the stream reaches neither formatter nor sink");
    __CPROVER_assert((A.s != 0) == enabled && (A.r != 0) == enabled, "Inv(0): the stream is live iff the filter accepts");
    if (enabled)
        __CPROVER_assert(A.s->count == 0 && A.r->severity == sev && (tag != 0 ==> A.r->tag == tag), "Inv(0): empty buffer, record carries severity and tag");
    /* k = 0: the statement ends here */
    ss_dtor(&A, sev);
    __CPROVER_assert(g_sink_calls == sink0 + (enabled ? 1 : 0) && g_format_calls == format0 + (enabled ? 1 : 0), "a statement without insertions emits one record iff enabled");
    __CPROVER_assert(0, "CANARY lemma reached");
}
void h_lemma_statement_step(void)
{
    NITRO_HAVOC;
    nitro_exc = 0;
    int sev = nondet_int(); size_t tag = nondet_size_t(), i = nondet_size_t(), w_item = nondet_size_t(), item = nondet_size_t();
    nbool live = nondet_nbool(), lazy = nondet_nbool(), rvalue_form = nondet_nbool();
    __CPROVER_assume(L_VALID_SEV(sev) && i < (((size_t)1) << 40));
    struct smart_stream A, B;
    lemma_arbitrary_stream(&A, live, sev, tag, i, w_item);       /* Inv(i) */
    size_t filter0 = g_filter_calls, format0 = g_format_calls, sink0 = g_sink_calls, lazy0 = g_lazy_calls;
    struct smart_stream *owner = &A;
    if (rvalue_form)
    {
        if (lazy) ins_lazy_rv(&B, &A, item); else ins_val_rv(&B, &A, item);
        owner = &B;
        ss_dtor(&A, sev);                                        /* the moved-from temporary dies (at the end of the full expression) */
        __CPROVER_assert(g_sink_calls == sink0 && g_format_calls == format0, "a moved-from temporary emits nothing when it dies");
    }
    else
    {
        if (lazy) ins_lazy_lv(&A, item); else ins_val_lv(&A, item);
    }
    __CPROVER_assert(g_filter_calls == filter0 && g_format_calls == format0 && g_sink_calls == sink0, "an insertion reaches neither filter, formatter nor sink");
    __CPROVER_assert(g_lazy_calls == lazy0 + ((lazy && live) ? 1 : 0), "a callable is called exactly once, at the point where it is streamed, iff the statement is enabled");
    __CPROVER_assert((owner->r != 0) == live && (owner->s != 0) == live, "Inv(i+1): liveness is unchanged and there is exactly one owner");
    if (live)
    {
        __CPROVER_assert(owner->s->count == i + 1 && owner->r->severity == sev && owner->r->tag == tag, "Inv(i+1): one more piece, same severity and tag");
        __CPROVER_assert(g_ow == i ==> owner->s->w_id == item, "Inv(i+1): the new piece is the streamed item, at the end");
        __CPROVER_assert(g_ow < i ==> owner->s->w_id == w_item, "Inv(i+1): earlier pieces are unchanged");
    }
    __CPROVER_assert(0, "CANARY lemma reached");
}
void h_lemma_statement_final(void)
{
    NITRO_HAVOC;
    nitro_exc = 0;
    int sev = nondet_int(); size_t tag = nondet_size_t(), k = nondet_size_t(), w_item = nondet_size_t();
    nbool live = nondet_nbool();
    __CPROVER_assume(L_VALID_SEV(sev));
    struct smart_stream A;
    lemma_arbitrary_stream(&A, live, sev, tag, k, w_item);       /* Inv(k) */
    size_t filter0 = g_filter_calls, format0 = g_format_calls, sink0 = g_sink_calls, lazy0 = g_lazy_calls;
    ss_dtor(&A, sev);
    __CPROVER_assert(g_sink_calls == sink0 + (live ? 1 : 0), "exactly one record reaches the sink iff the statement is enabled, none otherwise");
    __CPROVER_assert(g_format_calls == format0 + (live ? 1 : 0) && g_filter_calls == filter0 && g_lazy_calls == lazy0, "the formatter runs iff the record is emitted; nothing is evaluated at the end");
    if (live)
    {
        __CPROVER_assert(g_sink_sev == sev && g_sink_rec.severity == sev && g_sink_rec.tag == tag, "the delivered record carries the statement's severity and tag");
        __CPROVER_assert(g_sink_rec.message.count == k && g_sink_rec.message.w_id == w_item, "its message is the concatenation, in order, of everything streamed");
    }
    __CPROVER_assert(0, "CANARY lemma reached");
}

/* compile-time part: enum order and the gate, exhaustively over the 6 x 6 (severity, minimum) pairs */
void h_lemma_severity_order_and_gate(void)
{
    __CPROVER_assert(SEV_trace == LVL_TRACE && SEV_debug == LVL_DEBUG && SEV_info == LVL_INFO && SEV_warn == LVL_WARN && SEV_error == LVL_ERROR && SEV_fatal == LVL_FATAL,
                     "severity_level enumerators are ordered trace < debug < info < warn < error < fatal");
    int s = nondet_int(), m = nondet_int();
    __CPROVER_assume(L_VALID_SEV(s) && L_VALID_SEV(m));
    __CPROVER_assert(log_gate(s, m) == (s >= m), "a statement gets a real stream iff its severity is at or above the compile-time minimum");
    __CPROVER_assert(0, "CANARY lemma reached");
}

/* C09: two successive calls of the thread-safe sink (what two threads do, serialised by the mutex) */
void h_lemma_mt_sink_lock_discipline(void)
{
    NITRO_HAVOC;
    nitro_exc = 0;
    struct nfmt *f = malloc(sizeof(*f));
    __CPROVER_assume(f != 0);
    g_stream_mutex = stdout_mt_mutex();
    g_stream_mutex->held = 0;
    size_t w0 = g_stream_writes;
    stdout_mt_sink(nondet_int(), f);
    __CPROVER_assert(stdout_mt_mutex() == g_stream_mutex, "every call uses the same mutex object");
    __CPROVER_assert(!g_stream_mutex->held, "the mutex is free again after the call");
    stdout_mt_sink(nondet_int(), f);
    __CPROVER_assert(g_stream_writes == w0 + 2 && !g_stream_mutex->held, "each record is written exactly once, under the lock");
    g_stream_mutex = stderr_mt_mutex();
    g_stream_mutex->held = 0;
    stderr_mt_sink(nondet_int(), f);
    stderr_mt_sink(nondet_int(), f);
    __CPROVER_assert(g_stream_writes == w0 + 4 && !g_stream_mutex->held, "the stderr sink follows the same discipline");
    __CPROVER_assert(0, "CANARY lemma reached");
}
