"""Native replay hook of the log unit: all severities x thresholds x both syntactic forms (also during stack unwinding and
with a failed stream), sequence order; for the mt sinks a multi-threaded run over a non-thread-safe stream buffer."""
import os
from vf import replay as R
HERE = os.path.dirname(os.path.abspath(__file__))


def native_replay(job, inputs, bdir):
    return False, {"note": "one-step counterexample of the abstract stream state: searched by the scenario sweep"}


def native_sweep(job, bdir):
    exe = os.path.join(bdir, "log_replay")
    if not os.path.exists(exe):
        rc, out = R.build_native(os.path.join(HERE, "replay.cpp"), exe, ["-pthread"])
        if rc != 0:
            return False, {"build_error": out}
    mode = "c09" if ("_mt_" in job or "mt_sink" in job) else "c05"
    rc, out = R.run_native([exe, mode], timeout=300)
    return (rc != 0 and rc != 2), {"cmd": "log_replay " + mode, "exit": rc, "output": out.strip()[-600:]}
