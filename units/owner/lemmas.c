/* C18, histories: induction step over a pool of two owners a, b.  Invariant: every non-empty owner owns a distinct
 * live object whose type equals its deleter's type; live objects == non-empty owners.  Any single operation
 * (reset / move-assign in either direction / move-construct + destroy the source, as std::vector relocation does)
 * re-establishes it, and the number of destructor runs equals the number of objects that lost their owner. */
int nondet_int(void);
static void lemma_mk(struct quaint_ptr *q, int nonempty, int T)
{
    q->ptr = 0; q->deleter = 0;
    if (nonempty) { qobj *o = malloc(sizeof(qobj)); __CPROVER_assume(o != 0); o->type_tag = T; q->ptr = o; q->deleter = T; }
}
void h_lemma_qp_history(void)
{
    NITRO_HAVOC;
    nitro_exc = 0;
    struct quaint_ptr *a = malloc(sizeof(*a)), *b = malloc(sizeof(*b)), *c = malloc(sizeof(*c));
    __CPROVER_assume(a != 0 && b != 0 && c != 0);
    int ta = nondet_int(), tb = nondet_int(), na = nondet_int(), nb = nondet_int();
    __CPROVER_assume(ta >= 1 && tb >= 1);
    lemma_mk(a, na, ta); lemma_mk(b, nb, tb);
    size_t owners0 = (a->ptr != 0) + (b->ptr != 0);
    size_t live0 = g_live_qobjs, destroyed0 = g_destroyed;
    void *pa = a->ptr, *pb = b->ptr;
    size_t owners1;
    switch (nondet_int())
    {
    case 0: qp_reset(a); owners1 = (a->ptr != 0) + (b->ptr != 0); break;
    case 1: qp_move_assign(a, b); owners1 = (a->ptr != 0) + (b->ptr != 0);
            __CPROVER_assert(a->ptr == pb, "move assignment hands the source object over"); break;
    case 2: qp_move_assign(b, a); owners1 = (a->ptr != 0) + (b->ptr != 0); break;
    default: qp_move_ctor(c, a);   /* relocation: construct the new element from the old one, then destroy the old one */
            __CPROVER_assert(a->ptr == 0, "the relocated-from element is empty, its destructor destroys nothing");
            owners1 = (c->ptr != 0) + (b->ptr != 0);
            __CPROVER_assert(c->ptr == pa, "relocation keeps the object"); break;
    }
    __CPROVER_assert(owners1 <= owners0, "no operation creates an owner");
    __CPROVER_assert(g_destroyed - destroyed0 == owners0 - owners1, "each object that lost its owner was destroyed exactly once, no other");
    __CPROVER_assert(live0 - g_live_qobjs == owners0 - owners1, "live objects stay equal to non-empty owners");
    __CPROVER_assert(0, "CANARY lemma reached");
}
