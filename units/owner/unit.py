"""owner unit: nitro::lang::optional<T> and nitro::lang::quaint_ptr (C18).
Binding: T := tobj (a heap object holding one elem); std::unique_ptr<T> := nullable owning pointer whose
make_unique/reset/destructor are stubs with bodies that really malloc/free and count live objects."""
import re
from vf.extract import Rule, CallRule, ExtractionError
from vf.unit import Unit, F, Lemma

OPT = "include/nitro/lang/optional.hpp"
QP = "include/nitro/lang/quaint_ptr.hpp"
P = ["C18"]
OCLS = r"class\s+optional\b"
QCLS = r"class\s+quaint_ptr\b"


def build(src):
    u = Unit("owner", src)
    u.members["opt"] = src.members(OPT, OCLS)
    if [m[1] for m in u.members["opt"]] != ["data_"] or "unique_ptr<T>" not in u.members["opt"][0][0]:
        raise ExtractionError("optional data members changed: %r" % (u.members["opt"],))

    def minit(ty, name, expr):
        return "NITRO_INIT(self->%s, %s);" % (name, expr if expr is not None else "0 /* default-constructed unique_ptr */")
    u.member_init["opt"] = minit
    u.ctor_cleanup["opt"] = "nitro_uptr_reset(&self->data_, 0)"

    def other_rules(n):
        # `other` is a const optional&: operator bool and operator* are calls of this unit's functions (D6).  Every use of the bare
        # name that is not a dereference, an address-of or a member access is a contextual conversion to bool.
        class BoolContext:
            name = "D6.opt-bool." + n

            def apply(self, text):
                cnt = 0

                def rep(m):
                    nonlocal cnt
                    before = text[:m.start()].rstrip()
                    after = text[m.end():].lstrip()
                    ok_before = before.endswith(("(", "!", "&&", "||", "?", ":", "return", "=")) and not before.endswith(("opt_bool(", "opt_deref("))
                    ok_after = after.startswith((")", "&&", "||", "?", ":", ";"))
                    if before.endswith(("opt_bool(", "opt_deref(")):
                        return m.group(0)
                    if not (ok_before and ok_after):
                        raise ExtractionError("optional: the reference parameter `%s` is used in a way no rule covers: ...%s" % (n, text[max(0, m.start() - 40):m.end() + 20]))
                    cnt += 1
                    return "opt_bool(%s)" % n
                out = re.sub(r"(?<![\w.>&*])%s\b(?!\s*(?:->|\.|\())" % n, rep, text)
                return out, cnt
        return [Rule("D6.opt-bool." + n, r"static_cast<bool>\(\s*%s\s*\)" % n, "opt_bool(%s)" % n),
                Rule("D6.opt-deref." + n, r"\*%s\b" % n, "(*opt_deref(%s))" % n),
                BoolContext()]
    common = [
        CallRule("D3.std-move", r"std::move\(", lambda m, a: "(%s)" % a[0]),
        CallRule("D7.make_unique", r"std::make_unique<T>\(", lambda m, a: "nitro_make_unique_T(&(%s))" % a[0]),
        Rule("D7.uptr-assign", r"(?m)^(\s*)data_\s*=\s*(nitro_make_unique_T\([^;]*\));", r"\1{ tobj *nitro_tmp = \2; NITRO_PROPAGATE; nitro_uptr_reset(&data_, nitro_tmp); }"),
        Rule("D7.uptr-reset", r"\bdata_\.reset\(\)", "nitro_uptr_reset(&data_, 0)"),
        Rule("D7.uptr-bool", r"static_cast<bool>\(data_\)", "(data_ != 0)"),
        Rule("D7.uptr-bool-if", r"\bif\s*\(\s*data_\s*\)", "if (data_ != 0)"),
        Rule("D7.uptr-deref", r"\*data_\b", "(*data_)"),
        CallRule("D4.raise", r"(?<![\w:])raise\(", lambda m, a: "NITRO_THROW(EXC_NITRO)"),
        Rule("D3.this", r"\*this\b", "(*self)"),
        Rule("D3.members", r"(?<![\w.>])data_\b", "self->data_"),
    ]
    u.rules = common
    so = "struct optional *self"
    cso = "const struct optional *self"

    def ref(n):
        return [Rule("D3.refparam." + n, r"(?<![\w.>&])%s\b(?!\s*\()" % n, "(*%s)" % n)]
    u.add(F("opt_ctor_copy", OPT, r"optional\(const optional& other\)", "void opt_ctor_copy(%s, const struct optional *other)" % so, P, within=OCLS, ctor="opt", rules=other_rules("other"), no_replace=["opt_bool", "opt_deref"]))
    u.add(F("opt_ctor_value", OPT, r"optional\(const T& data\)", "void opt_ctor_value(%s, const tobj *data)" % so, P, within=OCLS, ctor="opt", rules=ref("data")))
    u.add(F("opt_ctor_rvalue", OPT, r"optional\(T&& data\)", "void opt_ctor_rvalue(%s, const tobj *data)" % so, P, within=OCLS, ctor="opt", rules=ref("data")))
    for nm in ("opt_assign_copy", "opt_assign_copy_self"):
        u.add(F(nm, OPT, r"optional& operator=\(const optional& other\)", "struct optional *%s(%s, const struct optional *other)" % (nm, so), P, within=OCLS,
                dflt="0", ret_ref=True, rules=other_rules("other"), no_replace=["opt_bool", "opt_deref"],
                note="same source text; the _self variant is verified under the aliasing precondition other == this" if nm.endswith("_self") else ""))
    u.add(F("opt_assign_value", OPT, r"optional& operator=\(const T& data\)", "struct optional *opt_assign_value(%s, const tobj *data)" % so, P, within=OCLS, dflt="0", ret_ref=True, rules=ref("data")))
    u.add(F("opt_assign_rvalue", OPT, r"optional& operator=\(T&& data\)", "struct optional *opt_assign_rvalue(%s, const tobj *data)" % so, P, within=OCLS, dflt="0", ret_ref=True, rules=ref("data")))
    u.add(F("opt_bool", OPT, r"explicit operator bool\(\) const", "nbool opt_bool(%s)" % cso, P, within=OCLS, dflt="0"))
    u.add(F("opt_deref", OPT, r"const T& operator\*\(\) const", "const tobj *opt_deref(%s)" % cso, P, within=OCLS, dflt="0", ret_ref=True))
    t = src.text(OPT)
    if not re.search(r"\boptional\(\)\s*=\s*default\s*;", t):
        raise ExtractionError("optional() is no longer defaulted")
    u.static_facts.append("optional() = default: a new optional is empty (default-constructed unique_ptr); no destructor is declared: ~unique_ptr destroys the owned copy once")

    # ---- quaint_ptr ----
    qt = src.text(QP)
    for pat, fact in [(r"quaint_ptr\(const quaint_ptr&\)\s*=\s*delete\s*;", "copy construction of quaint_ptr is deleted"),
                      (r"quaint_ptr& operator=\(const quaint_ptr&\)\s*=\s*delete\s*;", "copy assignment of quaint_ptr is deleted"),
                      (r"class quaint_ptr\s*:\s*private\s+std::unique_ptr<void,\s*std::function<void\(void\*\)>>", "quaint_ptr privately derives from unique_ptr<void, std::function<void(void*)>>")]:
        if not re.search(pat, qt):
            raise ExtractionError("quaint_ptr: expected declaration missing: " + fact)
        u.static_facts.append(fact + " (read from the source on this run)")
    sq = "struct quaint_ptr *self"
    qrules = [
        Rule("D7.base-reset", r"\bbase::reset\(nullptr\)", "nitro_qptr_reset(self, 0, 0)"),
        Rule("D7.base-reset", r"\bbase::reset\(\)", "nitro_qptr_reset(self, 0, 0)"),
        Rule("D7.base-release", r"\bbase::release\(\)", "nitro_qptr_release(self)"),
        CallRule("D7.base-swap", r"\bbase::swap\(", lambda m, a: "nitro_qptr_swap(self, &(%s))" % a[0]),
        Rule("D7.base-get", r"(?<![\w.>:])get\(\)", "self->ptr"),
        Rule("D3.this", r"\*this\b", "(*self)"),
    ]
    u.add(F("qp_reset", QP, r"void reset\(\)", "void qp_reset(%s)" % sq, P, within=QCLS, rules=qrules))
    u.add(F("qp_as", QP, r"T& as\(\) const", "qobj *qp_as(const struct quaint_ptr *self, int T)", P, within=QCLS, dflt="0", ret_ref=True,
            rules=[Rule("D1.static_cast", r"static_cast<T\*>\(([^()]*(?:\(\))?)\)", r"nitro_cast_qobj(\1, T)")] + qrules))
    # make_quaint: `return { new T(args...), [](void* ptr) { delete static_cast<T*>(ptr); } };`
    mq = src.find(QP, r"auto make_quaint\(Args&&\.\.\. args\)\s*->\s*quaint_ptr")
    body = re.sub(r"\s+", " ", mq["body"]).strip()
    m = re.match(r"^return \{ new (\w+)\(std::forward<Args>\(args\)\.\.\.\), \[\]\(void\* (\w+)\) \{ (.*) \} \};$", body)
    if not m:
        raise ExtractionError("make_quaint no longer has the shape `return { new T(args...), [](void* p) { ... } };`: " + body[:120])
    newty, pname, lam = m.group(1), m.group(2), m.group(3)

    class MakeQuaint:
        name = "D8.lambda-deleter"

        def apply(self, text):
            # the lambda body becomes the deleter function qp_deleter_body; `delete static_cast<X*>(p)` destroys as type X
            return "\n    return nitro_qptr_make(nitro_new_qobj(%s), QP_DELETER_LAMBDA);\n" % ("T" if newty == "T" else "QT_OTHER"), 1
    u.add(F("qp_make_quaint", QP, r"auto make_quaint\(Args&&\.\.\. args\)\s*->\s*quaint_ptr", "struct quaint_ptr qp_make_quaint(int T)", P,
            dflt="(struct quaint_ptr){0}", pre=[MakeQuaint()]))
    lam_c, n = re.subn(r"delete static_cast<(\w+)\*>\(%s\);" % pname, lambda mm: "nitro_delete_qobj_as(%s, %s);" % (pname, "T" if mm.group(1) == "T" else "QT_OTHER"), lam)
    if n != 1 or re.search(r"[^\s;]", re.sub(r"nitro_delete_qobj_as\([^)]*\);", "", lam_c)):
        raise ExtractionError("deleter lambda of make_quaint is not a single `delete static_cast<X*>(ptr);`: " + lam)
    u.prelude = "/* deleter lambda of make_quaint (rule D8): */\nvoid qp_deleter_lambda(void *%s, int T)\n{ %s }\n" % (pname, lam_c)
    # defaulted or user-defined move operations and the implicit destructor
    u.add(F("qp_move_assign", QP, r"quaint_ptr& operator=\(quaint_ptr&& other\)", "struct quaint_ptr *qp_move_assign(%s, struct quaint_ptr *other)" % sq, P, within=QCLS,
            dflt="0", ret_ref=True, rules=[Rule("D3.refparam.other", r"(?<![\w.>&])other\b", "(*other)")] + qrules,
            defaulted=r"quaint_ptr& operator=\(quaint_ptr&&\)\s*=\s*default\s*;",
            default_body="\n    /* unique_ptr move assignment: reset(other.release()), deleter moved along */\n    { int d_ = other->deleter; void *p_ = nitro_qptr_release(other); nitro_qptr_reset(self, p_, d_); }\n    return self;\n"))
    u.add(F("qp_move_ctor", QP, r"quaint_ptr\(quaint_ptr&& other\)", "void qp_move_ctor(%s, struct quaint_ptr *other)" % sq, P, within=QCLS,
            rules=[Rule("D3.refparam.other", r"(?<![\w.>&])other\b", "(*other)")] + qrules,
            defaulted=r"quaint_ptr\(quaint_ptr&&\)\s*=\s*default\s*;",
            default_body="\n    /* unique_ptr move construction: takes the pointer and the deleter, the source becomes empty */\n    self->deleter = other->deleter; self->ptr = nitro_qptr_release(other);\n"))
    u.stubs = []
    u.trusted = [
        "extraction rules D1-D8: T := tobj; std::unique_ptr<T> := owning pointer with stub bodies (make_unique allocates one object and copies the value, reset deletes the old object once, bad_alloc not modelled)",
        "std::unique_ptr<void, std::function<void(void*)>>: reset(p) runs the deleter on the old non-null pointer exactly once, release() empties without destroying, move operations transfer pointer and deleter and empty the source (nitro_qptr_* stub bodies)",
        "`delete static_cast<X*>(p)` runs X's destructor: modelled as a type-tag comparison on the object",
        "std::vector<quaint_ptr> relocates elements with the move constructor followed by the destructor of the (empty) source",
    ]
    u.lemmas = [Lemma("lemma_qp_history", P, replace=["qp_reset", "qp_move_assign", "qp_move_ctor"],
                      note="induction step: any operation on a pool of two owners keeps live objects == non-empty owners and destroys each object once, with its own type")]
    return u
