"""Native replay hook of the owner unit: exhaustive operation sequences (length <= 4, pool of 3) on the real classes."""
import os
from vf import replay as R
HERE = os.path.dirname(os.path.abspath(__file__))


def native_replay(job, inputs, bdir):
    return False, {"note": "counterexample (recorded flags %s) is a one-step state: searched in the exhaustive sequence sweep" % (inputs.get("g_in") or [])[:2]}


def native_sweep(job, bdir):
    exe = os.path.join(bdir, "own_replay")
    if not os.path.exists(exe):
        rc, out = R.build_native(os.path.join(HERE, "replay.cpp"), exe)
        if rc != 0:
            return False, {"build_error": out}
    rc, out = R.run_native([exe, job], timeout=300)
    return (rc != 0 and rc != 2), {"cmd": "own_replay " + job, "exit": rc, "output": out.strip()[-600:]}
