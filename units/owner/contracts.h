/* Contracts for nitro::lang::optional<T> and quaint_ptr (C18): owning wrappers destroy exactly once, by the
 * destructor of the type the object was created with, and optional copies deeply. */
#ifndef OWNER_CONTRACTS_H
#define OWNER_CONTRACTS_H
#include "nitro_rt.h"
#include "kf_gen.h"
#include "enf_gen.h"

typedef struct tobj { elem v; } tobj;
struct optional { tobj *data_; };
typedef struct qobj { int type_tag; } qobj;                 /* an object of some type T >= 1 */
struct quaint_ptr { void *ptr; int deleter; };              /* deleter: the type the make_quaint lambda was instantiated for (0: none) */
#define QT_OTHER (-1)                                       /* a type different from the template argument */
#define QP_DELETER_LAMBDA T

extern size_t g_live_objs, g_live_qobjs, g_destroyed;       /* ghost: live copies held by optionals; live/destroyed type-erased objects */
#define NITRO_UNIT_GLOBALS size_t g_live_objs, g_live_qobjs, g_destroyed;
#define NITRO_HAVOC_UNIT g_live_objs = nondet_size_t(); g_live_qobjs = nondet_size_t(); g_destroyed = nondet_size_t();
#define NITRO_INIT(lhs, e) lhs = (e)
#define OWN_OBJ(p) __CPROVER_is_fresh(p, sizeof(*(p)))
#define OWN_OBJ_OR_ROK(fn, p) ((NITRO_ENF_##fn && OWN_OBJ(p)) || (!NITRO_ENF_##fn && __CPROVER_r_ok(p, sizeof(*(p)))))
#define OWN_REC(fn, a, b) (!NITRO_ENF_##fn || (g_in[0] == (size_t)(a) && g_in[1] == (size_t)(b)))

/* ---- std::unique_ptr<T> stubs with bodies ---- */
static inline tobj *nitro_make_unique_T(const tobj *src)
{
    tobj *p = malloc(sizeof(tobj));
    __CPROVER_assume(p != 0);           /* ASSUMPTION: allocation succeeds */
    p->v = src->v;                      /* T's copy/move constructor copies the value */
    g_live_objs++;
    return p;
}
static inline void nitro_uptr_reset(tobj **u, tobj *p)
{
    tobj *old = *u;
    *u = p;
    if (old) { free(old); g_live_objs--; }
}
/* ---- std::unique_ptr<void, std::function<void(void*)>> stubs with bodies ---- */
void qp_deleter_lambda(void *ptr, int T);                   /* generated from the lambda in make_quaint */
static inline qobj *nitro_new_qobj(int T)
{
    qobj *p = malloc(sizeof(qobj));
    __CPROVER_assume(p != 0);           /* ASSUMPTION: allocation succeeds */
    p->type_tag = T;
    g_live_qobjs++;
    return p;
}
static inline void nitro_delete_qobj_as(void *p, int T)
{
    qobj *o = (qobj *)p;
    __CPROVER_assert(o->type_tag == T, "object is destroyed by the destructor of the type it was created with");
    free(o);
    g_live_qobjs--;
    g_destroyed++;
}
static inline struct quaint_ptr nitro_qptr_make(void *p, int d) { struct quaint_ptr q; q.ptr = p; q.deleter = d; return q; }
static inline void *nitro_qptr_release(struct quaint_ptr *s) { void *p = s->ptr; s->ptr = 0; return p; }
static inline void nitro_qptr_reset(struct quaint_ptr *s, void *p, int d)
{
    void *old = s->ptr;
    s->ptr = p;
    if (old) qp_deleter_lambda(old, s->deleter);
    s->deleter = d;
}
static inline void nitro_qptr_swap(struct quaint_ptr *a, struct quaint_ptr *b)
{
    void *p = a->ptr; int d = a->deleter; a->ptr = b->ptr; a->deleter = b->deleter; b->ptr = p; b->deleter = d;
}
static inline qobj *nitro_cast_qobj(void *p, int T) { (void)T; return (qobj *)p; }
/* implicit ~quaint_ptr(): ~unique_ptr runs the deleter on a non-null pointer (rule D5) */
static inline void qp_dtor(struct quaint_ptr *s) { if (s->ptr) qp_deleter_lambda(s->ptr, s->deleter); s->ptr = 0; }

/* ======================= optional ======================= */
/* invariant: owns zero or one heap object, shared with nobody */
#define OPT_WF(o) ((o)->data_ == 0 || __CPROVER_is_fresh((o)->data_, sizeof(tobj)))
#define OPT_LIVE_DELTA(d) (g_live_objs == __CPROVER_old(g_live_objs) + (d))

void opt_ctor_copy(struct optional *self, const struct optional *other)
__CPROVER_requires(nitro_exc == 0 && OWN_OBJ(self) && OWN_OBJ(other) && OPT_WF(other))
__CPROVER_requires(OWN_REC(opt_ctor_copy, other->data_ != 0, 0))
__CPROVER_assigns(*self, g_live_objs, nitro_exc)
__CPROVER_ensures(nitro_exc == 0)
__CPROVER_ensures((other->data_ == 0) == (self->data_ == 0))                                     /*@ copy_of_empty_is_empty */
__CPROVER_ensures(other->data_ != 0 ==> (__CPROVER_is_fresh(self->data_, sizeof(tobj)) && self->data_->v == other->data_->v))  /*@ independent_equal_copy */
__CPROVER_ensures(g_live_objs == __CPROVER_old(g_live_objs) + (other->data_ != 0 ? 1 : 0));

#define OPT_CTOR_VALUE(name) \
void name(struct optional *self, const tobj *data) \
__CPROVER_requires(nitro_exc == 0 && OWN_OBJ(self) && OWN_OBJ(data)) \
__CPROVER_assigns(*self, g_live_objs) \
__CPROVER_ensures(nitro_exc == 0 && __CPROVER_is_fresh(self->data_, sizeof(tobj)) && self->data_->v == data->v)  /*@ owns_an_independent_copy */ \
__CPROVER_ensures(g_live_objs == __CPROVER_old(g_live_objs) + 1)
OPT_CTOR_VALUE(opt_ctor_value);
OPT_CTOR_VALUE(opt_ctor_rvalue);

/* copy assignment from a DIFFERENT optional */
struct optional *opt_assign_copy(struct optional *self, const struct optional *other)
__CPROVER_requires(nitro_exc == 0 && OWN_OBJ(self) && OPT_WF(self) && OWN_OBJ(other) && OPT_WF(other))
__CPROVER_requires(OWN_REC(opt_assign_copy, self->data_ != 0, other->data_ != 0))
__CPROVER_assigns(self->data_, g_live_objs, nitro_exc; self->data_ != 0: __CPROVER_object_whole(self->data_))
__CPROVER_frees(self->data_)
__CPROVER_ensures(nitro_exc == 0 && __CPROVER_return_value == self)
__CPROVER_ensures((other->data_ == 0) == (self->data_ == 0))                                     /*@ assigning_empty_empties_the_target */
__CPROVER_ensures(other->data_ != 0 ==> (self->data_ != other->data_ && self->data_->v == other->data_->v))  /*@ never_aliases_the_source */
__CPROVER_ensures(g_live_objs == __CPROVER_old(g_live_objs) + (other->data_ != 0 ? 1 : 0) - (__CPROVER_old(self->data_) != 0 ? 1 : 0));  /*@ old_value_destroyed_once */

/* self-assignment: same function, aliasing precondition */
struct optional *opt_assign_copy_self(struct optional *self, const struct optional *other)
__CPROVER_requires(nitro_exc == 0 && OWN_OBJ(self) && OPT_WF(self) && __CPROVER_pointer_equals(other, self))
__CPROVER_requires(OWN_REC(opt_assign_copy_self, self->data_ != 0, self->data_ != 0))
__CPROVER_assigns(self->data_, g_live_objs, nitro_exc; self->data_ != 0: __CPROVER_object_whole(self->data_))
__CPROVER_frees(self->data_)
__CPROVER_ensures(nitro_exc == 0)                                                               /*@ self_assignment_does_not_raise */
__CPROVER_ensures((__CPROVER_old(self->data_) == 0) == (self->data_ == 0))                       /*@ self_assignment_keeps_emptiness */
__CPROVER_ensures(self->data_ != 0 ==> self->data_->v == __CPROVER_old(self->data_->v))          /*@ self_assignment_keeps_the_value */
__CPROVER_ensures(g_live_objs == __CPROVER_old(g_live_objs));

#define OPT_ASSIGN_VALUE(name) \
struct optional *name(struct optional *self, const tobj *data) \
__CPROVER_requires(nitro_exc == 0 && OWN_OBJ(self) && OPT_WF(self) && OWN_OBJ(data)) \
__CPROVER_assigns(self->data_, g_live_objs; self->data_ != 0: __CPROVER_object_whole(self->data_)) \
__CPROVER_frees(self->data_) \
__CPROVER_ensures(nitro_exc == 0 && __CPROVER_return_value == self && self->data_ != 0 && self->data_ != data && self->data_->v == data->v)  /*@ holds_an_independent_copy */ \
__CPROVER_ensures(g_live_objs == __CPROVER_old(g_live_objs) + 1 - (__CPROVER_old(self->data_) != 0 ? 1 : 0))   /*@ old_value_destroyed_once */
OPT_ASSIGN_VALUE(opt_assign_value);
OPT_ASSIGN_VALUE(opt_assign_rvalue);

nbool opt_bool(const struct optional *self)
__CPROVER_requires(nitro_exc == 0 && OWN_OBJ_OR_ROK(opt_bool, self))
__CPROVER_assigns()
__CPROVER_ensures(__CPROVER_return_value == (self->data_ != 0) && nitro_exc == 0);

const tobj *opt_deref(const struct optional *self)
__CPROVER_requires(nitro_exc == 0 && OWN_OBJ_OR_ROK(opt_deref, self) && (!NITRO_ENF_opt_deref || OPT_WF(self)))
__CPROVER_assigns(nitro_exc)
__CPROVER_ensures((self->data_ == 0) == (nitro_exc != 0))                                        /*@ reading_an_empty_one_raises */
__CPROVER_ensures(nitro_exc == 0 || nitro_exc == EXC_NITRO)
__CPROVER_ensures(nitro_exc == 0 ==> __CPROVER_pointer_equals(__CPROVER_return_value, self->data_));   /*@ returns_the_owned_object */

/* ======================= quaint_ptr ======================= */
#define QP_WF(q) ((q)->ptr == 0 || (__CPROVER_is_fresh((q)->ptr, sizeof(qobj)) && (q)->deleter >= 1 && ((qobj *)(q)->ptr)->type_tag == (q)->deleter))

struct quaint_ptr qp_make_quaint(int T)
__CPROVER_requires(nitro_exc == 0 && T >= 1)
__CPROVER_assigns(g_live_qobjs)
__CPROVER_ensures(nitro_exc == 0 && __CPROVER_is_fresh(__CPROVER_return_value.ptr, sizeof(qobj)))
__CPROVER_ensures(((qobj *)__CPROVER_return_value.ptr)->type_tag == T)                           /*@ creates_an_object_of_type_T */
__CPROVER_ensures(__CPROVER_return_value.deleter == T)                                           /*@ deleter_destroys_as_T */
__CPROVER_ensures(g_live_qobjs == __CPROVER_old(g_live_qobjs) + 1);

void qp_reset(struct quaint_ptr *self)
__CPROVER_requires(nitro_exc == 0 && OWN_OBJ(self) && QP_WF(self))
__CPROVER_requires(OWN_REC(qp_reset, self->ptr != 0, 0))
__CPROVER_assigns(*self, g_live_qobjs, g_destroyed; self->ptr != 0: __CPROVER_object_whole(self->ptr))
__CPROVER_frees(self->ptr)
__CPROVER_ensures(nitro_exc == 0 && self->ptr == 0)                                              /*@ reset_pointer_is_empty */
__CPROVER_ensures(g_destroyed == __CPROVER_old(g_destroyed) + (__CPROVER_old(self->ptr) != 0 ? 1 : 0))   /*@ destroyed_exactly_once */
__CPROVER_ensures(g_live_qobjs == __CPROVER_old(g_live_qobjs) - (__CPROVER_old(self->ptr) != 0 ? 1 : 0));

qobj *qp_as(const struct quaint_ptr *self, int T)
__CPROVER_requires(nitro_exc == 0 && OWN_OBJ(self) && QP_WF(self) && self->ptr != 0 && self->deleter == T)
__CPROVER_assigns()
__CPROVER_ensures(nitro_exc == 0 && __CPROVER_return_value == (qobj *)self->ptr && __CPROVER_return_value->type_tag == T);  /*@ the_object_seen_as_its_own_type */

struct quaint_ptr *qp_move_assign(struct quaint_ptr *self, struct quaint_ptr *other)
__CPROVER_requires(nitro_exc == 0 && OWN_OBJ(self) && QP_WF(self) && OWN_OBJ(other) && QP_WF(other))
__CPROVER_requires(OWN_REC(qp_move_assign, self->ptr != 0, other->ptr != 0))
__CPROVER_assigns(*self, *other, g_live_qobjs, g_destroyed; self->ptr != 0: __CPROVER_object_whole(self->ptr))
__CPROVER_frees(self->ptr)
__CPROVER_ensures(nitro_exc == 0 && __CPROVER_return_value == self)
__CPROVER_ensures(__CPROVER_pointer_equals(self->ptr, __CPROVER_old(other->ptr)))                /*@ takes_over_the_source_object */
__CPROVER_ensures(self->ptr != 0 ==> self->deleter == __CPROVER_old(other->deleter))             /*@ with_its_own_deleter */
__CPROVER_ensures(other->ptr == 0)                                                               /*@ moved_from_pointer_is_empty */
__CPROVER_ensures(g_destroyed == __CPROVER_old(g_destroyed) + (__CPROVER_old(self->ptr) != 0 ? 1 : 0))   /*@ overwritten_object_destroyed_once */
__CPROVER_ensures(g_live_qobjs == __CPROVER_old(g_live_qobjs) - (__CPROVER_old(self->ptr) != 0 ? 1 : 0));

void qp_move_ctor(struct quaint_ptr *self, struct quaint_ptr *other)
__CPROVER_requires(nitro_exc == 0 && OWN_OBJ(self) && OWN_OBJ(other) && QP_WF(other))
__CPROVER_assigns(*self, *other)
__CPROVER_ensures(nitro_exc == 0 && __CPROVER_pointer_equals(self->ptr, __CPROVER_old(other->ptr)))   /*@ takes_over_the_source_object */
__CPROVER_ensures(self->ptr != 0 ==> self->deleter == __CPROVER_old(other->deleter))
__CPROVER_ensures(other->ptr == 0)                                                               /*@ moved_from_pointer_is_empty */
__CPROVER_ensures(g_destroyed == __CPROVER_old(g_destroyed) && g_live_qobjs == __CPROVER_old(g_live_qobjs));
#endif
