// Native replay for the owner unit: exhaustive short operation sequences on the REAL optional / quaint_ptr with
// instance-counting element types.    own_replay <job>     exit 1 = deviation printed
#include <nitro/lang/optional.hpp>
#include <nitro/lang/quaint_ptr.hpp>
#include <cstdio>
#include <string>
#include <vector>
static int live = 0, dtor[3] = { 0, 0, 0 };
template <int K> struct Obj { int v; Obj(int x = 0) : v(x) { ++live; } Obj(const Obj& o) : v(o.v) { ++live; } ~Obj() { --live; ++dtor[K]; } Obj& operator=(const Obj&) = default; };
using O = nitro::lang::optional<Obj<0>>;
static int check_optional()
{
    // pool of 3 optionals, all op sequences of length <= 4: ops: set(i,val), copy-assign(i,j) incl. i==j, assign-empty(i), read(i)
    const int NOPS = 3 * 2 + 9 + 3 + 3;
    for (int len = 1; len <= 4; ++len)
    {
        std::vector<int> seq(len, 0);
        while (true)
        {
            {
                live = 0;
                {
                    O pool[3]; int ref[3] = { -1, -1, -1 };   // -1 empty
                    std::string hist;
                    for (int op : seq)
                    {
                        hist += std::to_string(op) + " ";
                        if (op < 6) { int i = op / 2, val = 10 + op % 2; pool[i] = Obj<0>(val); ref[i] = val; }
                        else if (op < 15) { int i = (op - 6) / 3, j = (op - 6) % 3; pool[i] = pool[j]; ref[i] = ref[j]; }
                        else if (op < 18) { int i = op - 15; O e; pool[i] = e; ref[i] = -1; }
                        else { int i = op - 18; bool raised = false; int got = -2; try { got = (*pool[i]).v; } catch (std::exception&) { raised = true; }
                               if (raised != (ref[i] < 0) || (!raised && got != ref[i])) { std::printf("DEVIATION optional: read after ops [%s] gives %d/raised=%d, expected %d\n", hist.c_str(), got, raised, ref[i]); return 1; } }
                        int want = 0;
                        for (int k = 0; k < 3; ++k) { want += ref[k] >= 0; if (bool(pool[k]) != (ref[k] >= 0)) { std::printf("DEVIATION optional: emptiness of #%d wrong after ops [%s]\n", k, hist.c_str()); return 1; }
                                                      if (ref[k] >= 0 && (*pool[k]).v != ref[k]) { std::printf("DEVIATION optional: value of #%d wrong after ops [%s]\n", k, hist.c_str()); return 1; } }
                        if (live != want) { std::printf("DEVIATION optional: %d live copies for %d non-empty optionals after ops [%s]\n", live, want, hist.c_str()); return 1; }
                    }
                    // independence: changing a copy's source must not change the copy
                    O a(Obj<0>(1)); O b(a); a = Obj<0>(2); if ((*b).v != 1) { std::printf("DEVIATION optional: copy aliases its source\n"); return 1; }
                }
                if (live != 0) { std::printf("DEVIATION optional: %d copies leaked\n", live); return 1; }
            }
            int k = 0;
            while (k < len && ++seq[k] == NOPS) seq[k++] = 0;
            if (k == len) break;
        }
    }
    return 0;
}
using nitro::lang::quaint_ptr; using nitro::lang::make_quaint;
static int check_quaint()
{
    // pool of 3 pointers; ops: create<K>(i) (move-assign from temporary), move-assign(i,j), reset(i), push all into a vector and back
    const int NOPS = 6 + 6 + 3 + 1;
    for (int len = 1; len <= 4; ++len)
    {
        std::vector<int> seq(len, 0);
        while (true)
        {
            live = 0; dtor[0] = dtor[1] = dtor[2] = 0;
            int created[3] = { 0, 0, 0 };
            {
                quaint_ptr pool[3]; int ty[3] = { -1, -1, -1 };
                std::string hist;
                for (int op : seq)
                {
                    hist += std::to_string(op) + " ";
                    if (op < 6) { int i = op / 2, k = op % 2; if (k == 0) pool[i] = make_quaint<Obj<0>>(5); else pool[i] = make_quaint<Obj<1>>(6); ++created[k]; ty[i] = k; }
                    else if (op < 12) { int i = (op - 6) / 2, j = (i + 1 + (op - 6) % 2) % 3; pool[i] = std::move(pool[j]); ty[i] = ty[j]; ty[j] = -1; }
                    else if (op < 15) { int i = op - 12; pool[i].reset(); ty[i] = -1; }
                    else { std::vector<quaint_ptr> v; for (int k = 0; k < 3; ++k) v.push_back(std::move(pool[k])); for (int k = 0; k < 3; ++k) pool[k] = std::move(v[k]); }
                    int want = 0;
                    for (int k = 0; k < 3; ++k) { want += ty[k] >= 0; if (bool(pool[k]) != (ty[k] >= 0)) { std::printf("DEVIATION quaint_ptr: emptiness of #%d wrong after ops [%s]\n", k, hist.c_str()); return 1; } }
                    if (live != want) { std::printf("DEVIATION quaint_ptr: %d live objects for %d owners after ops [%s]\n", live, want, hist.c_str()); return 1; }
                    for (int k = 0; k < 3; ++k) if (ty[k] == 0 && pool[k].as<Obj<0>>().v != 5) { std::printf("DEVIATION quaint_ptr: wrong object after ops [%s]\n", hist.c_str()); return 1; }
                }
            }
            if (live != 0 || dtor[0] != created[0] || dtor[1] != created[1]) { std::printf("DEVIATION quaint_ptr: created %d/%d, destroyed %d/%d, live %d\n", created[0], created[1], dtor[0], dtor[1], live); return 1; }
            int k = 0;
            while (k < len && ++seq[k] == NOPS) seq[k++] = 0;
            if (k == len) break;
        }
    }
    return 0;
}
int main(int argc, char** argv)
{
    if (argc < 2) return 2;
    std::string job = argv[1];
    int rc = job.rfind("opt_", 0) == 0 ? check_optional() : check_quaint();
    if (rc == 0) std::printf("CONFORMS %s on all operation sequences up to length 4\n", job.c_str());
    return rc;
}
