"""iter unit: nitro::lang::enumerate and nitro::lang::reverse (C20).
Binding: Iterator := a position (size_t) in a container of n elements (begin = 0, end = n, *p = the element at p,
so aliasing is identity of positions); T (container) := ncont; reverse iterators := struct nrev {base} as std::reverse_iterator."""
import re
from vf.extract import Rule, CallRule, ExtractionError
from vf.unit import Unit, F, Lemma

EN = "include/nitro/lang/enumerate.hpp"
RV = "include/nitro/lang/reverse.hpp"
P = ["C20"]
IT = r"struct\s+iterator\b"
PX = r"class\s+enumerate_proxy\b"
EO = r"class\s+enumerate(?=\s*\{)"
RP = r"class\s+reverse_proxy\b"
RO = r"class\s+reverse(?=\s*\{)"


def build(src):
    u = Unit("iter", src)
    for key, rel, cls in [("it", EN, IT), ("px", EN, PX), ("rp", RV, RP)]:
        u.members[key] = src.members(rel, cls)
    if [m[1] for m in u.members["it"]] != ["it_", "index_"]:
        raise ExtractionError("enumerate iterator members changed: %r" % u.members["it"])
    u.members["px"] = [m for m in u.members["px"] if m[1] in ("begin_", "end_")]
    if [m[1] for m in u.members["px"]] != ["begin_", "end_"] or [m[1] for m in u.members["rp"]] != ["begin_", "end_"]:
        raise ExtractionError("proxy members changed")

    def minit(ty, name, expr):
        return "self->%s = %s;" % (name, expr if expr is not None else "0")
    for k in ("it", "px", "rp"):
        u.member_init[k] = minit
    mem = Rule("D3.members", r"(?<![\w.>])(it_|index_|begin_|end_|container_)\b", r"self->\1")
    brace_iter = Rule("D3.braced-return", r"return\s*\{\s*([^{};]+?)\s*,\s*([^{};]+?)\s*\}\s*;", r"{ struct enum_iter nitro_r; enum_iter_ctor(&nitro_r, \1, \2); return nitro_r; }")
    u.rules = [Rule("D2.auto", r"\bauto\b", "__auto_type"), CallRule("D3.std-move", r"std::move\(", lambda m, a: "(%s)" % a[0])]
    si = "struct enum_iter *self"
    u.add(F("enum_iter_ctor", EN, r"iterator\(Iterator it, std::size_t index\)", "void enum_iter_ctor(%s, size_t it, size_t index)" % si, P, within=IT, ctor="it"))
    u.functions[-1].within = PX
    for nm, sig in [("enum_iter_deref", r"auto operator\*\(\)"), ("enum_iter_deref_c", r"auto operator\*\(\) const")]:
        u.add(F(nm, EN, sig, "struct enum_val %s(const struct enum_iter *self)" % nm, P, within=PX, dflt="(struct enum_val){0}",
                rules=[Rule("D3.proxy-ctor", r"return\s+proxy<[^>]*>\(index_,\s*\*it_\);", "{ struct enum_val nitro_r; nitro_r.index_ = index_; nitro_r.value_ = nitro_deref(it_); return nitro_r; }"), mem],
                must_fire=["D3.proxy-ctor"]))
    u.add(F("enum_iter_preinc", EN, r"iterator& operator\+\+\(\)", "struct enum_iter *enum_iter_preinc(%s)" % si, P, within=PX, dflt="0", ret_ref=True,
            rules=[Rule("D3.this", r"\*this\b", "(*self)"), mem]))
    u.add(F("enum_iter_postinc", EN, r"iterator operator\+\+\(int\)", "struct enum_iter enum_iter_postinc(%s)" % si, P, within=PX, dflt="(struct enum_iter){0}",
            rules=[Rule("D3.copy-this", r"\biterator\s+(\w+)\s*=\s*\*this;", r"struct enum_iter \1 = *self;"),
                   Rule("D6.preinc-this", r"\+\+\(\*this\);", "enum_iter_preinc(self);"), brace_iter, mem]))
    u.add(F("enum_iter_ne", EN, r"bool operator!=\(iterator other\)", "nbool enum_iter_ne(const struct enum_iter *self, struct enum_iter other)", P, within=PX, dflt="0", rules=[mem]))
    u.add(F("enum_proxy_ctor", EN, r"enumerate_proxy\(Iterator begin, Iterator end\)", "void enum_proxy_ctor(struct enum_proxy *self, size_t begin, size_t end)", P, within=PX, ctor="px"))
    u.add(F("enum_proxy_begin", EN, r"iterator begin\(\)", "struct enum_iter enum_proxy_begin(struct enum_proxy *self)", P, within=PX, dflt="(struct enum_iter){0}", rules=[brace_iter, mem]))
    u.add(F("enum_proxy_end", EN, r"iterator end\(\)", "struct enum_iter enum_proxy_end(struct enum_proxy *self)", P, within=PX, dflt="(struct enum_iter){0}", rules=[brace_iter, mem]))
    # owning enumerate<T>
    o = src.find(EN, r"enumerate\(T container\)", within=EO)
    if o["init"] != [("container_", "std::move(container)")]:
        raise ExtractionError("detail::enumerate constructor no longer moves the container into container_")
    u.static_facts.append("detail::enumerate<T> holds `T container_;` initialised by container_(std::move(container)): an rvalue range is owned for the whole loop (declared member type read from the source)")
    own_iter = Rule("D3.iterator-ctor", r"return\s+typename\s+enumerate_proxy<decltype\(container_\.begin\(\)\)>::iterator\(\s*container_\.(begin|end)\(\),\s*([^;]+)\);",
                    r"{ struct enum_iter nitro_r; enum_iter_ctor(&nitro_r, ncont_\1(&self->container_), \2); return nitro_r; }")
    u.add(F("enum_owner_begin", EN, r"auto begin\(\) const", "struct enum_iter enum_owner_begin(const struct enum_owner *self)", P, within=EO, dflt="(struct enum_iter){0}", rules=[own_iter], must_fire=["D3.iterator-ctor"]))
    u.add(F("enum_owner_end", EN, r"auto end\(\) const", "struct enum_iter enum_owner_end(const struct enum_owner *self)", P, within=EO, dflt="(struct enum_iter){0}", rules=[own_iter], must_fire=["D3.iterator-ctor"]))
    pr = Rule("D3.proxy-over-range", r"return\s+detail::enumerate_proxy<decltype\(begin\(container\)\)>\(begin\(container\),\s*end\(container\)\);",
              "{ struct enum_proxy nitro_r; enum_proxy_ctor(&nitro_r, ncont_begin(container), ncont_end(container)); return nitro_r; }")
    using = Rule("D2.using", r"using\s+std::(begin|end);", "")
    u.add(F("enumerate_cref", EN, r"inline auto enumerate\(const T& container\)", "struct enum_proxy enumerate_cref(const struct ncont *container)", P, dflt="(struct enum_proxy){0}", rules=[using, pr], must_fire=["D3.proxy-over-range"]))
    u.add(F("enumerate_ref", EN, r"inline auto enumerate\(T& container\)", "struct enum_proxy enumerate_ref(const struct ncont *container)", P, dflt="(struct enum_proxy){0}", rules=[using, pr], must_fire=["D3.proxy-over-range"]))
    u.add(F("enumerate_rvalue", EN, r"inline auto enumerate\(T&& container\)", "struct enum_owner enumerate_rvalue(struct ncont *container)", P, dflt="(struct enum_owner){0}",
            rules=[Rule("D3.owner-ctor", r"return\s+detail::enumerate<T>\(std::move\(container\)\);", "{ struct enum_owner nitro_r; nitro_r.container_ = *container; return nitro_r; }")], must_fire=["D3.owner-ctor"]))
    u.add(F("enumerate_ilist", EN, r"inline auto enumerate\(std::initializer_list<T>&& container\)", "struct enum_owner enumerate_ilist(struct ncont *container)", P, dflt="(struct enum_owner){0}",
            rules=[Rule("D3.vector-from-list", r"return\s+enumerate\(std::vector<T>\(std::move\(container\)\)\);", "{ struct ncont nitro_v = nitro_vector_from_list(container); return enumerate_rvalue(&nitro_v); }")], must_fire=["D3.vector-from-list"]))
    # reverse
    sr = "const struct rev_proxy *self"
    u.add(F("rev_proxy_ctor", RV, r"reverse_proxy\(iterator begin, iterator end\)", "void rev_proxy_ctor(struct rev_proxy *self, struct nrev begin, struct nrev end)", P, within=RP, ctor="rp"))
    u.add(F("rev_proxy_begin", RV, r"iterator begin\(\) const", "struct nrev rev_proxy_begin(%s)" % sr, P, within=RP, dflt="(struct nrev){0}", rules=[mem]))
    u.add(F("rev_proxy_end", RV, r"iterator end\(\) const", "struct nrev rev_proxy_end(%s)" % sr, P, within=RP, dflt="(struct nrev){0}", rules=[mem]))
    ro = src.find(RV, r"reverse\(T container\)", within=RO)
    if ro["init"] != [("container_", "std::move(container)")]:
        raise ExtractionError("detail::reverse constructor no longer moves the container into container_")
    u.static_facts.append("detail::reverse<T> holds `T container_;` initialised by container_(std::move(container)) (declared member type read from the source)")
    u.add(F("rev_owner_begin", RV, r"auto begin\(\) const", "struct nrev rev_owner_begin(const struct enum_owner *self)", P, within=RO, dflt="(struct nrev){0}",
            rules=[Rule("D7.crbegin", r"\bcontainer_\.c?r(begin|end)\(\)", r"ncont_r\1(&self->container_)")], must_fire=["D7.crbegin"]))
    u.add(F("rev_owner_end", RV, r"auto end\(\) const", "struct nrev rev_owner_end(const struct enum_owner *self)", P, within=RO, dflt="(struct nrev){0}",
            rules=[Rule("D7.crbegin", r"\bcontainer_\.c?r(begin|end)\(\)", r"ncont_r\1(&self->container_)")], must_fire=["D7.crbegin"]))
    rpr = Rule("D3.proxy-over-reverse-range", r"return\s+detail::reverse_proxy<T,\s*decltype\(container\.rbegin\(\)\)>\(container\.r(begin|end)\(\),\s*container\.r(begin|end)\(\)\);",
               r"{ struct rev_proxy nitro_r; rev_proxy_ctor(&nitro_r, ncont_r\1(container), ncont_r\2(container)); return nitro_r; }")
    u.add(F("reverse_cref", RV, r"inline auto reverse\(const T& container\)", "struct rev_proxy reverse_cref(const struct ncont *container)", P, dflt="(struct rev_proxy){0}", rules=[rpr], must_fire=["D3.proxy-over-reverse-range"]))
    u.add(F("reverse_ref", RV, r"inline auto reverse\(T& container\)", "struct rev_proxy reverse_ref(const struct ncont *container)", P, dflt="(struct rev_proxy){0}", rules=[rpr], must_fire=["D3.proxy-over-reverse-range"]))
    u.add(F("reverse_rvalue", RV, r"inline auto reverse\(T&& container\)", "struct enum_owner reverse_rvalue(struct ncont *container)", P, dflt="(struct enum_owner){0}",
            rules=[Rule("D3.owner-ctor", r"return\s+detail::reverse<T>\(std::move\(container\)\);", "{ struct enum_owner nitro_r; nitro_r.container_ = *container; return nitro_r; }")], must_fire=["D3.owner-ctor"]))
    u.add(F("reverse_array", RV, r"inline auto reverse\(T \(&container\)\[Size\]\)", "struct enum_owner reverse_array(size_t container, size_t Size)", P, dflt="(struct enum_owner){0}",
            rules=[Rule("D3.vector-from-range", r"return\s+reverse\(std::vector<std::reference_wrapper<T>>\(container,\s*container \+ Size\)\);",
                        "{ struct ncont nitro_v = nitro_vector_from_range(container, container + Size); return reverse_rvalue(&nitro_v); }")], must_fire=["D3.vector-from-range"]))
    u.add(F("reverse_ilist", RV, r"inline auto reverse\(std::initializer_list<T>&& l\)", "struct enum_owner reverse_ilist(struct ncont *l)", P, dflt="(struct enum_owner){0}",
            rules=[Rule("D3.vector-from-list", r"return\s+reverse\(std::vector<T>\(std::move\(l\)\)\);", "{ struct ncont nitro_v = nitro_vector_from_list(l); return reverse_rvalue(&nitro_v); }")], must_fire=["D3.vector-from-list"]))
    u.stubs = []
    u.trusted = [
        "extraction rules D1-D7: an underlying iterator is a position in a container of n elements (begin()=0, end()=n, ++ adds 1, * yields the element at the position: aliasing = same position)",
        "std::reverse_iterator semantics: rbegin() has base n, rend() base 0, * yields the element at base-1, ++ decrements base (nrev stub)",
        "std::vector<T>(initializer_list / pointer range) holds the same elements in the same order (nitro_vector_from_* stubs)",
        "that proxy<value_type> holds a reference for lvalue ranges and that the rvalue overloads own the container follow from declared member types (static facts, not obligations)",
    ]
    u.lemmas = [Lemma("lemma_enumerate_iteration", P, replace=["enum_proxy_begin", "enum_proxy_end", "enum_iter_ne", "enum_iter_preinc", "enum_iter_deref", "enumerate_ref"],
                      note="for (auto x : enumerate(c)) visits positions 0..n-1 once each, in order, with index == position, for every n >= 0"),
                Lemma("lemma_enumerate_postinc_iteration", P, replace=["enum_proxy_begin", "enum_proxy_end", "enum_iter_ne", "enum_iter_postinc", "enum_iter_deref", "enumerate_ref"],
                      note="the same with a hand-written `*it++` loop"),
                Lemma("lemma_reverse_iteration", P, replace=["rev_proxy_begin", "rev_proxy_end", "reverse_ref"],
                      note="for (auto x : reverse(c)) visits positions n-1..0")]
    return u
