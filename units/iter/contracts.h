/* Contracts for nitro::lang::enumerate / reverse (C20). */
#ifndef ITER_CONTRACTS_H
#define ITER_CONTRACTS_H
#include "nitro_rt.h"
#include "kf_gen.h"
#include "enf_gen.h"
struct ncont { size_t n; size_t id; };                 /* a range of n elements; id names the container object */
struct nrev { size_t base; };                          /* std::reverse_iterator: refers to the element at base-1 */
struct enum_iter { size_t it_; size_t index_; };
struct enum_val { size_t index_; size_t value_; };     /* proxy<U>: index and the element (its position: aliasing is identity) */
struct enum_proxy { size_t begin_; size_t end_; };
struct rev_proxy { struct nrev begin_; struct nrev end_; };
struct enum_owner { struct ncont container_; };        /* detail::enumerate<T> / detail::reverse<T>: owns the container */
#define IT_MAX (((size_t)1) << 62)
#define IT_OBJ(p) __CPROVER_is_fresh(p, sizeof(*(p)))
#define IT_OBJ_OR_OK(fn, p) ((NITRO_ENF_##fn && IT_OBJ(p)) || (!NITRO_ENF_##fn && __CPROVER_rw_ok(p, sizeof(*(p)))))
#define IT_OBJ_OR_ROK(fn, p) ((NITRO_ENF_##fn && IT_OBJ(p)) || (!NITRO_ENF_##fn && __CPROVER_r_ok(p, sizeof(*(p)))))
static inline size_t nitro_deref(size_t pos) { return pos; }
static inline size_t ncont_begin(const struct ncont *c) { (void)c; return 0; }
static inline size_t ncont_end(const struct ncont *c) { return c->n; }
static inline struct nrev ncont_rbegin(const struct ncont *c) { struct nrev r; r.base = c->n; return r; }
static inline struct nrev ncont_rend(const struct ncont *c) { (void)c; struct nrev r; r.base = 0; return r; }
static inline struct ncont nitro_vector_from_list(const struct ncont *l) { return *l; }
static inline struct ncont nitro_vector_from_range(size_t first, size_t last) { struct ncont c; c.n = last - first; c.id = first; return c; }

void enum_iter_ctor(struct enum_iter *self, size_t it, size_t index)
__CPROVER_requires(nitro_exc == 0 && IT_OBJ_OR_OK(enum_iter_ctor, self))
__CPROVER_assigns(*self)
__CPROVER_ensures(self->it_ == it && self->index_ == index && nitro_exc == 0);

#define ENUM_DEREF(name) \
struct enum_val name(const struct enum_iter *self) \
__CPROVER_requires(nitro_exc == 0 && IT_OBJ_OR_ROK(name, self)) \
__CPROVER_assigns() \
__CPROVER_ensures(__CPROVER_return_value.index_ == self->index_ && __CPROVER_return_value.value_ == self->it_ && nitro_exc == 0)  /*@ pairs_the_element_with_its_index */
ENUM_DEREF(enum_iter_deref);
ENUM_DEREF(enum_iter_deref_c);

struct enum_iter *enum_iter_preinc(struct enum_iter *self)
__CPROVER_requires(nitro_exc == 0 && IT_OBJ_OR_OK(enum_iter_preinc, self) && self->it_ < IT_MAX && self->index_ < IT_MAX)
__CPROVER_assigns(*self)
__CPROVER_ensures(self->it_ == __CPROVER_old(self->it_) + 1 && self->index_ == __CPROVER_old(self->index_) + 1)   /*@ position_and_index_advance_together */
__CPROVER_ensures(__CPROVER_return_value == self && nitro_exc == 0);

struct enum_iter enum_iter_postinc(struct enum_iter *self)
__CPROVER_requires(nitro_exc == 0 && IT_OBJ_OR_OK(enum_iter_postinc, self) && self->it_ < IT_MAX && self->index_ < IT_MAX)
__CPROVER_assigns(*self)
__CPROVER_ensures(self->it_ == __CPROVER_old(self->it_) + 1 && self->index_ == __CPROVER_old(self->index_) + 1)   /*@ position_and_index_advance_together */
__CPROVER_ensures(__CPROVER_return_value.it_ == __CPROVER_old(self->it_) && __CPROVER_return_value.index_ == __CPROVER_old(self->index_) && nitro_exc == 0);  /*@ returns_the_iterator_before_the_step */

nbool enum_iter_ne(const struct enum_iter *self, struct enum_iter other)
__CPROVER_requires(nitro_exc == 0 && IT_OBJ_OR_ROK(enum_iter_ne, self))
__CPROVER_assigns()
__CPROVER_ensures(__CPROVER_return_value == (self->it_ != other.it_) && nitro_exc == 0);       /*@ compares_positions_only */

void enum_proxy_ctor(struct enum_proxy *self, size_t begin, size_t end)
__CPROVER_requires(nitro_exc == 0 && IT_OBJ_OR_OK(enum_proxy_ctor, self))
__CPROVER_assigns(*self)
__CPROVER_ensures(self->begin_ == begin && self->end_ == end && nitro_exc == 0);

struct enum_iter enum_proxy_begin(struct enum_proxy *self)
__CPROVER_requires(nitro_exc == 0 && IT_OBJ_OR_ROK(enum_proxy_begin, self))
__CPROVER_assigns()
__CPROVER_ensures(__CPROVER_return_value.it_ == self->begin_ && __CPROVER_return_value.index_ == 0 && nitro_exc == 0);   /*@ starts_at_the_first_element_with_index_0 */
struct enum_iter enum_proxy_end(struct enum_proxy *self)
__CPROVER_requires(nitro_exc == 0 && IT_OBJ_OR_ROK(enum_proxy_end, self))
__CPROVER_assigns()
__CPROVER_ensures(__CPROVER_return_value.it_ == self->end_ && nitro_exc == 0);

struct enum_iter enum_owner_begin(const struct enum_owner *self)
__CPROVER_requires(nitro_exc == 0 && IT_OBJ(self))
__CPROVER_assigns()
__CPROVER_ensures(__CPROVER_return_value.it_ == 0 && __CPROVER_return_value.index_ == 0 && nitro_exc == 0);   /*@ starts_at_the_first_element_with_index_0 */
struct enum_iter enum_owner_end(const struct enum_owner *self)
__CPROVER_requires(nitro_exc == 0 && IT_OBJ(self))
__CPROVER_assigns()
__CPROVER_ensures(__CPROVER_return_value.it_ == self->container_.n && nitro_exc == 0);          /*@ ends_behind_the_last_element */

#define ENUMERATE_LVALUE(name) \
struct enum_proxy name(const struct ncont *container) \
__CPROVER_requires(nitro_exc == 0 && IT_OBJ_OR_ROK(name, container)) \
__CPROVER_assigns() \
__CPROVER_ensures(__CPROVER_return_value.begin_ == 0 && __CPROVER_return_value.end_ == container->n && nitro_exc == 0)   /*@ spans_the_whole_container_in_place */
ENUMERATE_LVALUE(enumerate_cref);
ENUMERATE_LVALUE(enumerate_ref);

#define OWNING(name) \
struct enum_owner name(struct ncont *container) \
__CPROVER_requires(nitro_exc == 0 && IT_OBJ_OR_ROK(name, container)) \
__CPROVER_assigns() \
__CPROVER_ensures(__CPROVER_return_value.container_.n == container->n && __CPROVER_return_value.container_.id == container->id && nitro_exc == 0)  /*@ owns_the_same_elements */
OWNING(enumerate_rvalue);
OWNING(enumerate_ilist);
OWNING(reverse_rvalue);
OWNING(reverse_ilist);

void rev_proxy_ctor(struct rev_proxy *self, struct nrev begin, struct nrev end)
__CPROVER_requires(nitro_exc == 0 && IT_OBJ_OR_OK(rev_proxy_ctor, self))
__CPROVER_assigns(*self)
__CPROVER_ensures(self->begin_.base == begin.base && self->end_.base == end.base && nitro_exc == 0);
struct nrev rev_proxy_begin(const struct rev_proxy *self)
__CPROVER_requires(nitro_exc == 0 && IT_OBJ_OR_ROK(rev_proxy_begin, self))
__CPROVER_assigns()
__CPROVER_ensures(__CPROVER_return_value.base == self->begin_.base && nitro_exc == 0);
struct nrev rev_proxy_end(const struct rev_proxy *self)
__CPROVER_requires(nitro_exc == 0 && IT_OBJ_OR_ROK(rev_proxy_end, self))
__CPROVER_assigns()
__CPROVER_ensures(__CPROVER_return_value.base == self->end_.base && nitro_exc == 0);
struct nrev rev_owner_begin(const struct enum_owner *self)
__CPROVER_requires(nitro_exc == 0 && IT_OBJ(self))
__CPROVER_assigns()
__CPROVER_ensures(__CPROVER_return_value.base == self->container_.n && nitro_exc == 0);         /*@ starts_at_the_last_element */
struct nrev rev_owner_end(const struct enum_owner *self)
__CPROVER_requires(nitro_exc == 0 && IT_OBJ(self))
__CPROVER_assigns()
__CPROVER_ensures(__CPROVER_return_value.base == 0 && nitro_exc == 0);                          /*@ ends_before_the_first_element */

#define REVERSE_LVALUE(name) \
struct rev_proxy name(const struct ncont *container) \
__CPROVER_requires(nitro_exc == 0 && IT_OBJ_OR_ROK(name, container)) \
__CPROVER_assigns() \
__CPROVER_ensures(__CPROVER_return_value.begin_.base == container->n && __CPROVER_return_value.end_.base == 0 && nitro_exc == 0)  /*@ exactly_rbegin_to_rend_of_the_container */
REVERSE_LVALUE(reverse_cref);
REVERSE_LVALUE(reverse_ref);

struct enum_owner reverse_array(size_t container, size_t Size)
__CPROVER_requires(nitro_exc == 0 && container < IT_MAX && Size < IT_MAX)
__CPROVER_assigns()
__CPROVER_ensures(__CPROVER_return_value.container_.n == Size && __CPROVER_return_value.container_.id == container && nitro_exc == 0);   /*@ wraps_all_Size_elements_of_the_array */
#endif
