"""Native replay hook of the iter unit (real headers, container kinds x lengths 0..5, replay.cpp)."""
import os
from vf import replay as R
HERE = os.path.dirname(os.path.abspath(__file__))


def native_replay(job, inputs, bdir):
    return False, {"note": "one-step counterexample: searched by the container sweep"}


def native_sweep(job, bdir):
    exe = os.path.join(bdir, "iter_replay")
    if not os.path.exists(exe):
        rc, out = R.build_native(os.path.join(HERE, "replay.cpp"), exe)
        if rc != 0:
            return False, {"build_error": out}
    rc, out = R.run_native([exe, job], timeout=120)
    return (rc != 0 and rc != 2), {"cmd": "iter_replay " + job, "exit": rc, "output": out.strip()[-600:]}
