// Native replay for the iter unit on the REAL headers: enumerate / reverse over several container kinds, lengths 0..5.
#include <memory>
#include <iterator>
#include <nitro/lang/enumerate.hpp>
#include <nitro/lang/reverse.hpp>
#include <nitro/lang/fixed_vector.hpp>
#include <array>
#include <cstdio>
#include <list>
#include <vector>
template <typename C> static int check_enum(C& c, size_t n, const char* kind)
{
    size_t k = 0;
    for (auto x : nitro::lang::enumerate(c)) { if (x.index() != k || x.value() != (int)(10 + k)) { std::printf("DEVIATION enumerate(%s, n=%zu): step %zu has index %zu value %d\n", kind, n, k, x.index(), (int)x.value()); return 1; } ++k; }
    if (k != n) { std::printf("DEVIATION enumerate(%s, n=%zu) visits %zu elements\n", kind, n, k); return 1; }
    auto r = nitro::lang::enumerate(c);
    k = 0;
    for (auto it = r.begin(); it != r.end();) { auto x = *it++; if (x.index() != k || x.value() != (int)(10 + k)) { std::printf("DEVIATION enumerate(%s, n=%zu) with a hand-written *it++ loop: step %zu has index %zu\n", kind, n, k, x.index()); return 1; } ++k; }
    if (k != n) { std::printf("DEVIATION enumerate(%s) *it++ loop visits %zu elements\n", kind, k); return 1; }
    return 0;
}
template <typename C> static int check_rev(C& c, size_t n, const char* kind)
{
    size_t k = 0;
    for (auto& x : nitro::lang::reverse(c)) { if (x != (int)(10 + n - 1 - k)) { std::printf("DEVIATION reverse(%s, n=%zu): step %zu is %d\n", kind, n, k, (int)x); return 1; } ++k; }
    if (k != n) { std::printf("DEVIATION reverse(%s, n=%zu) visits %zu elements\n", kind, n, k); return 1; }
    return 0;
}
int main(int argc, char** argv)
{
    if (argc < 2) return 2;
    for (size_t n = 0; n <= 5; ++n)
    {
        std::vector<int> v; std::list<int> l; nitro::lang::fixed_vector<int> f(n + 2);
        for (size_t i = 0; i < n; ++i) { v.push_back(10 + i); l.push_back(10 + i); f.push_back(10 + i); }
        const std::vector<int> cv = v; const nitro::lang::fixed_vector<int>& cf = f;
        if (check_enum(v, n, "vector") || check_enum(cv, n, "const vector") || check_enum(l, n, "list") || check_enum(f, n, "fixed_vector") || check_enum(cf, n, "const fixed_vector")) return 1;
        if (check_rev(v, n, "vector") || check_rev(cv, n, "const vector") || check_rev(l, n, "list") || check_rev(f, n, "fixed_vector")) return 1;
        size_t k = 0;
        for (auto x : nitro::lang::enumerate(std::vector<int>(v))) { if (x.index() != k || x.value() != (int)(10 + k)) { std::printf("DEVIATION enumerate(rvalue vector)\n"); return 1; } ++k; }
        if (k != n) { std::printf("DEVIATION enumerate(rvalue vector) visits %zu of %zu\n", k, n); return 1; }
        k = 0;
        for (auto x : nitro::lang::reverse(std::vector<int>(v))) { if (x != (int)(10 + n - 1 - k)) { std::printf("DEVIATION reverse(rvalue vector)\n"); return 1; } ++k; }
        if (k != n) { std::printf("DEVIATION reverse(rvalue vector) visits %zu of %zu\n", k, n); return 1; }
        // aliasing: writes through enumerate reach the container
        for (auto x : nitro::lang::enumerate(v)) x.value() += 100;
        for (size_t i = 0; i < n; ++i) if (v[i] != (int)(110 + i)) { std::printf("DEVIATION enumerate(lvalue) does not alias the container\n"); return 1; }
    }
    int arr[3] = { 10, 11, 12 };
    if (check_enum(arr, 3, "array")) return 1;
    size_t k = 0;
    for (int& x : nitro::lang::reverse(arr)) { if (x != 12 - (int)k) { std::printf("DEVIATION reverse(array)\n"); return 1; } ++k; }
    k = 0;
    for (auto x : nitro::lang::enumerate({ 10, 11, 12, 13 })) { if (x.index() != k || x.value() != (int)(10 + k)) { std::printf("DEVIATION enumerate(initializer list)\n"); return 1; } ++k; }
    if (k != 4) { std::printf("DEVIATION enumerate(initializer list) visits %zu\n", k); return 1; }
    std::printf("CONFORMS %s\n", argv[1]);
    return 0;
}
