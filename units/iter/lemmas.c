/* C20 iteration lemmas: range-for semantics written out; every library call is replaced by its contract; loops are
 * closed by invariants, so the container length n is unbounded. */
void h_lemma_enumerate_iteration(void)
{
    struct ncont *c = malloc(sizeof(*c));
    __CPROVER_assume(c != 0 && c->n < IT_MAX);
    nitro_exc = 0;
    struct enum_proxy r = enumerate_ref(c);                 /* auto&& r = enumerate(c); */
    struct enum_iter it = enum_proxy_begin(&r), last = enum_proxy_end(&r);
    size_t k = 0;
    while (enum_iter_ne(&it, last))
        __CPROVER_assigns(it, k)
        __CPROVER_loop_invariant(k <= c->n && it.it_ == k && it.index_ == k && last.it_ == c->n)
        __CPROVER_decreases(c->n - k)
    {
        struct enum_val x = enum_iter_deref(&it);
        __CPROVER_assert(x.value_ == k, "the k-th visited element is the k-th element of the container (in place)");
        __CPROVER_assert(x.index_ == k, "and it is paired with index k");
        enum_iter_preinc(&it);
        ++k;
    }
    __CPROVER_assert(k == c->n, "every element is visited exactly once, also for an empty range");
    __CPROVER_assert(0, "CANARY lemma reached");
}
void h_lemma_enumerate_postinc_iteration(void)
{
    struct ncont *c = malloc(sizeof(*c));
    __CPROVER_assume(c != 0 && c->n < IT_MAX);
    nitro_exc = 0;
    struct enum_proxy r = enumerate_ref(c);
    struct enum_iter it = enum_proxy_begin(&r), last = enum_proxy_end(&r);
    size_t k = 0;
    while (enum_iter_ne(&it, last))
        __CPROVER_assigns(it, k)
        __CPROVER_loop_invariant(k <= c->n && it.it_ == k && it.index_ == k && last.it_ == c->n)
        __CPROVER_decreases(c->n - k)
    {
        struct enum_iter cur = enum_iter_postinc(&it);      /* auto x = *it++; */
        struct enum_val x = enum_iter_deref(&cur);
        __CPROVER_assert(x.value_ == k && x.index_ == k, "a hand-written *it++ loop sees element k with index k");
        ++k;
    }
    __CPROVER_assert(k == c->n, "every element is visited exactly once");
    __CPROVER_assert(0, "CANARY lemma reached");
}
void h_lemma_reverse_iteration(void)
{
    struct ncont *c = malloc(sizeof(*c));
    __CPROVER_assume(c != 0 && c->n < IT_MAX);
    nitro_exc = 0;
    struct rev_proxy r = reverse_ref(c);
    struct nrev it = rev_proxy_begin(&r), last = rev_proxy_end(&r);
    size_t k = 0;
    while (it.base != last.base)                             /* std::reverse_iterator: != compares bases */
        __CPROVER_assigns(it, k)
        __CPROVER_loop_invariant(k <= c->n && it.base == c->n - k && last.base == 0)
        __CPROVER_decreases(c->n - k)
    {
        size_t elem = it.base - 1;                           /* *it */
        __CPROVER_assert(elem == c->n - 1 - k, "the k-th visited element is the k-th from the end");
        it.base = it.base - 1;                               /* ++it */
        ++k;
    }
    __CPROVER_assert(k == c->n, "every element is visited exactly once, in the opposite order");
    __CPROVER_assert(0, "CANARY lemma reached");
}
