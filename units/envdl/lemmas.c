/* C19, histories: every object (library, symbol, copy of either) co-owns the handle through a shared_ptr.  Induction
 * step on one shared control block with r >= 1 owners: copying adds an owner and closes nothing; destroying one owner
 * closes the library exactly once iff it was the last, never otherwise.  So the library stays mapped while any owner
 * is alive and is closed exactly once after the last one, in whatever order they are destroyed. */
int nondet_int(void);
void h_lemma_dl_history(void)
{
    NITRO_HAVOC;
    nitro_exc = 0;
    struct nctrl *cb = malloc(sizeof(*cb));
    void *lib = malloc(1);
    __CPROVER_assume(cb != 0 && lib != 0);
    size_t r = nondet_size_t();
    __CPROVER_assume(r >= 1 && r < (((size_t)1) << 40) && g_dl_mapped >= 1 && g_dl_mapped < (((size_t)1) << 40));
    cb->refs = r; cb->deleter = nondet_int() ? DELETER_dl_ctor_file : DELETER_dl_ctor_self;
    struct nsptr a; a.cb = cb; a.ptr = lib;
    size_t mapped0 = g_dl_mapped, closes0 = g_dlclose_calls;
    if (nondet_int())
    {
        struct nsptr b;
        nsptr_copy(&b, &a);                 /* copy of a dl or symbol object, dl::get(), the by-value parameter of symbol */
        __CPROVER_assert(cb->refs == r + 1 && g_dl_mapped == mapped0 && g_dlclose_calls == closes0, "copying adds an owner and closes nothing");
    }
    else
    {
        nsptr_release(&a);                  /* destructor of a dl / symbol object */
        if (r > 1)
            __CPROVER_assert(cb->refs == r - 1 && g_dl_mapped == mapped0 && g_dlclose_calls == closes0, "the library stays mapped while another owner is alive");
        else
            __CPROVER_assert(g_dl_mapped == mapped0 - 1 && g_dlclose_calls == closes0 + 1, "closed exactly once when the last owner goes away");
    }
    __CPROVER_assert(0, "CANARY lemma reached");
}
