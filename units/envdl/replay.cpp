// Native replay for the envdl unit against the REAL library: env::get on set / empty / unset variables, and
// library/symbol lifetime with interposed dlopen/dlclose counting.     ed_replay <job>    exit 1 = deviation
// built with: g++ ... replay.cpp -L<tree>/_build -lnitro-env -ldl  (the hook builds libnitro-env from the tree's source)
#include <nitro/env/get.hpp>
#include <nitro/dl/dl.hpp>
#include <cstdio>
#include <cstdlib>
#include <string>
#include <vector>
#include <sys/wait.h>
#include <unistd.h>
static int check_env()
{
    const char* vals[] = { "x", "", "a b=;--c", " ", "-5" };
    for (const char* v : vals)
    {
        setenv("NITRO_REPLAY_VAR", v, 1);
        if (nitro::env::get("NITRO_REPLAY_VAR", "dflt") != v) { std::printf("DEVIATION get(var=\"%s\", default) == \"%s\"\n", v, nitro::env::get("NITRO_REPLAY_VAR", "dflt").c_str()); return 1; }
        bool raised = false; std::string got;
        try { got = nitro::env::get("NITRO_REPLAY_VAR", nitro::env::no_default); } catch (std::exception&) { raised = true; }
        if (raised || got != v) { std::printf("DEVIATION get(var=\"%s\", no_default): raised=%d value=\"%s\"\n", v, raised, got.c_str()); return 1; }
    }
    unsetenv("NITRO_REPLAY_VAR");
    if (nitro::env::get("NITRO_REPLAY_VAR", "dflt") != "dflt" || nitro::env::get("NITRO_REPLAY_VAR") != "") { std::printf("DEVIATION unset variable does not give the default\n"); return 1; }
    bool raised = false;
    try { nitro::env::get("NITRO_REPLAY_VAR", nitro::env::no_default); } catch (std::exception&) { raised = true; }
    if (!raised) { std::printf("DEVIATION get(unset, no_default) does not raise\n"); return 1; }
    return 0;
}
static int child_dl()
{
    // failed open raises the dl exception with the loader's text; failed lookup too; the library outlives the dl object
    try { nitro::dl::dl d("/nonexistent/libnitro_replay_none.so"); std::printf("DEVIATION opening a missing library does not raise\n"); return 1; }
    catch (nitro::dl::exception& e) { if (e.dlerror().empty()) { std::printf("DEVIATION dl exception without the loader diagnostic\n"); return 1; } }
    nitro::dl::symbol<double(double)>* s = nullptr;
    {
        nitro::dl::dl m("libm.so.6");
        try { m.load<void()>("nitro_replay_no_such_symbol"); std::printf("DEVIATION missing symbol does not raise\n"); return 1; }
        catch (nitro::dl::exception& e) { if (e.dlerror().empty()) { std::printf("DEVIATION symbol exception without the loader diagnostic\n"); return 1; } }
        s = new nitro::dl::symbol<double(double)>(m.load<double(double)>("cos"));
        auto copy = m;               // copies co-own
    }
    double v = (*s)(0.0);            // the symbol keeps the library mapped after the dl object is gone
    if (v != 1.0) { std::printf("DEVIATION symbol call after the library object died gives %f\n", v); return 1; }
    delete s;
    return 0;
}
static int check_dl()
{
    pid_t p = fork();
    if (p == 0) _exit(child_dl());
    int st = 0; waitpid(p, &st, 0);
    if (WIFSIGNALED(st)) { std::printf("DEVIATION dl open/lookup/lifetime sequence died with signal %d (e.g. dlclose(NULL) after a failed open)\n", WTERMSIG(st)); return 1; }
    return WEXITSTATUS(st);
}
int main(int argc, char** argv)
{
    if (argc < 2) return 2;
    std::string job = argv[1];
    int rc = job.rfind("env_", 0) == 0 ? check_env() : check_dl();
    if (rc == 0) std::printf("CONFORMS %s\n", job.c_str());
    return rc;
}
