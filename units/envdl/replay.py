"""Native replay hook of the envdl unit: runs the real env::get / dl classes (libnitro-env built from the tree's get.cpp)."""
import os, subprocess
from vf import replay as R
from vf.extract import REPO
HERE = os.path.dirname(os.path.abspath(__file__))


def native_replay(job, inputs, bdir):
    return False, {"note": "counterexample flags %s: reproduced through the scenario replay" % (inputs.get("g_in") or [])[:2]}


def native_sweep(job, bdir):
    exe = os.path.join(bdir, "ed_replay")
    if not os.path.exists(exe):
        rc, out = R.build_native(os.path.join(HERE, "replay.cpp"), exe, [os.path.join(REPO, "src/env/get.cpp"), "-ldl"])
        if rc != 0:
            return False, {"build_error": out}
    rc, out = R.run_native([exe, job], timeout=120)
    return (rc != 0 and rc != 2), {"cmd": "ed_replay " + job, "exit": rc, "output": out.strip()[-600:]}
