"""envdl unit: nitro::env::get (src/env/get.cpp) and nitro::dl::{dl, symbol, exception} (C19).
std::string := abstract string with an identity tag; getenv/dlopen/dlsym/dlclose/dlerror := stubs with ghost
loader state; std::shared_ptr<void> := control block with a reference count whose deleter is the extracted lambda."""
import re
from vf.extract import Rule, CallRule, ExtractionError, split_top, match_close
from vf.unit import Unit, F, Lemma

GET = "src/env/get.cpp"
DL = "include/nitro/dl/dl.hpp"
SYM = "include/nitro/dl/symbol.hpp"
EXC = "include/nitro/dl/exception.hpp"
P = ["C19"]


def lambda_parts(text):
    """`expr, [](void* p) { body }` -> (expr, param name, body)"""
    parts = split_top(text)
    if len(parts) != 2:
        raise ExtractionError("shared_ptr initialiser no longer is (pointer, deleter): " + text[:80])
    m = re.match(r"^\s*\[\]\s*\(\s*void\s*\*\s*(\w+)\s*\)\s*\{(.*)\}\s*$", parts[1], re.S)
    if not m:
        raise ExtractionError("shared_ptr deleter is not a capture-less lambda taking void*: " + parts[1][:80])
    return parts[0].strip(), m.group(1), m.group(2)


def build(src):
    u = Unit("envdl", src)
    common = [
        CallRule("D4.raise-dl", r"(?<![\w:])raise<nitro::dl::exception>\(", lambda m, a: "NITRO_THROW_DL(%s)" % a[0]),
        CallRule("D4.raise", r"(?<![\w:])raise\(", lambda m, a: "NITRO_THROW(EXC_NITRO)"),
        Rule("D7.getenv", r"std::getenv\((\w+)\.c_str\(\)\)", r"nitro_getenv(\1)"),
        Rule("D7.string-from-cstr", r"std::string\((\w+)\)", r"nstr_from_cstr(\1)"),
        Rule("D7.cstr-decl", r"\bchar\s*\*\s*(\w+)\s*;", r"const struct ncstr *\1;"),
        Rule("D7.cstr-decl", r"\bchar\s*\*\s*(\w+)\s*=", r"const struct ncstr *\1 ="),
        Rule("D7.sstream-decl", r"std::stringstream\s+msg;", "/* std::stringstream msg: message text (dropped, rule D4) */"),
        Rule("D7.sstream-put", r"(?m)^\s*msg\s*<<[^;]*;", "/* msg << ... */;"),
        Rule("D7.sstream-str", r"\bmsg\.str\(\)", "0"),
    ]
    u.rules = common
    # ---- env::get ----
    getrules = [Rule("D6.get-default-call", r"\bget\(name\)", "env_get(name, &nitro_empty_string)"),
                Rule("D3.string-local", r"std::string\s+(\w+)\s*=", r"struct nstr \1 ="),
                Rule("D7.string-empty", r"\b(value|default_)\.empty\(\)", r"(\1.len == 0)")]
    u.add(F("env_get", GET, r"std::string get\(const std::string& name, std::string default_\)",
            "struct nstr env_get(const struct nstr *name, const struct nstr *default_p)", P, dflt="nitro_empty_string",
            pre=[Rule("D3.by-value-param", r"\bdefault_\b", "(*default_p)")], rules=getrules))
    u.add(F("env_get_nodefault", GET, r"std::string get\(const std::string& name, detail::no_default_t\)",
            "struct nstr env_get_nodefault(const struct nstr *name)", P, dflt="nitro_empty_string", rules=getrules))

    # ---- dl::exception ----
    ex = src.find(EXC, r"explicit exception\(char\* dle, const std::string& what\)")
    names = [n for n, _ in ex["init"]]
    if names != ["nitro::except::exception", "dlerror_"]:
        raise ExtractionError("dl::exception mem-initialisers changed: %r" % names)

    class ExcCtor:
        name = "D1.base-and-members"

        def apply(self, text):
            return "\n    self->what_id = what_id; self->dlerror_ = 0; /* : nitro::except::exception(what), dlerror_() */\n" + ex["body"], 1
    u.add(F("dlexc_ctor", EXC, r"explicit exception\(char\* dle, const std::string& what\)",
            "void dlexc_ctor(struct dl_exception *self, const struct ncstr *dle, size_t what_id)", P,
            pre=[ExcCtor()], rules=[Rule("D7.string-assign-cstr", r"\bdlerror_\s*=\s*nstr_from_cstr\(dle\);", "self->dlerror_ = dle;"),
                                    Rule("D7.string-assign-cstr", r"\bdlerror_\s*=\s*std::string\(dle\);", "self->dlerror_ = dle;")],
            must_fire=["D7.string-assign-cstr"]))
    u.functions[-1].custom_init = True
    u.add(F("dlexc_dlerror", EXC, r"const std::string& dlerror\(\) const", "const struct ncstr *dlexc_dlerror(const struct dl_exception *self)", P, dflt="0",
            rules=[Rule("D3.members", r"\bdlerror_\b", "self->dlerror_")]))

    # ---- dl::dl constructors: handle(dlopen(...), lambda) ----
    prel = []
    for nm, sig, cparam, arg in [("dl_ctor_file", r"explicit dl\(const std::string& filename\)", "const struct nstr *filename", "filename"),
                                 ("dl_ctor_self", r"explicit dl\(self_tag\)", "int self_tag", None)]:
        d = src.find(DL, sig)
        if [n for n, _ in d["init"]] != ["handle"]:
            raise ExtractionError("%s: mem-initialiser list changed" % nm)
        expr, pname, lam = lambda_parts(d["init"][0][1])
        lam = re.sub(r"\(void\)\s*nitro::dl::self\s*;", "", lam)
        lam_c = re.sub(r"\bnullptr\b", "0", lam)
        lam_c = re.sub(r"\bdlclose\(", "nitro_dlclose(", lam_c)
        prel.append("/* deleter lambda of %s (rule D8) */\nvoid %s_deleter(void *%s)\n{%s}\n" % (nm, nm, pname, lam_c))
        if arg:
            e2, n = re.subn(r"\bdlopen\(%s\.c_str\(\),\s*RTLD_NOW\)" % arg, "nitro_dlopen(%s)" % arg, expr)
        else:
            e2, n = re.subn(r"\bdlopen\(NULL,\s*RTLD_NOW\)", "nitro_dlopen(0)", expr)
        if n != 1:
            raise ExtractionError("%s: pointer initialiser is not the expected dlopen call: %s" % (nm, expr))

        class Init:
            name = "D5.shared_ptr-init"

            def __init__(self, e2, nm):
                self.e2, self.nm = e2, nm

            def apply(self, text):
                return "\n    nsptr_init(&self->handle, %s, DELETER_%s);   /* handle(ptr, lambda) */\n" % (self.e2, self.nm) + text, 1
        u.add(F(nm, DL, sig, "void %s(struct dl *self, %s)" % (nm, cparam), P,
                pre=[Init(e2, nm)],
                rules=[Rule("D7.shared_ptr-null", r"\bhandle\s*==\s*nullptr", "nsptr_get(&self->handle) == 0"),
                       Rule("D7.dlerror", r"\bdlerror\(\)", "nitro_dlerror()")]))
        u.functions[-1].cleanup = "nsptr_release(&self->handle)"
        u.functions[-1].custom_init = True
    u.prelude = "\n".join(prel)
    u.add(F("dl_load", DL, r"nitro::dl::symbol<T> load\(const std::string& name\)", "void dl_load(struct symbol *ret, struct dl *self, const struct nstr *name)", P,
            rules=[Rule("D3.rvo-by-value-arg", r"return\s+nitro::dl::symbol<T>\(handle,\s*name\);",
                        "{ struct nsptr nitro_arg; nsptr_copy(&nitro_arg, &self->handle); sym_ctor(ret, &nitro_arg, name); nsptr_release(&nitro_arg); NITRO_PROPAGATE; return; }")],
            must_fire=["D3.rvo-by-value-arg"]))
    u.add(F("dl_get", DL, r"std::shared_ptr<void> get\(\) const", "void dl_get(struct nsptr *ret, const struct dl *self)", P,
            rules=[Rule("D3.rvo-copy", r"return\s+handle;", "nsptr_copy(ret, &self->handle); return;")], must_fire=["D3.rvo-copy"]))
    # ---- symbol ----
    SYM_SIG = r"symbol\((?:const\s+)?std::shared_ptr<void>\s*&?\s*library, const std::string& name\)"
    s = src.find(SYM, SYM_SIG)
    if [n for n, _ in s["init"]] != ["handle", "library"] or s["init"][0][1] != "nullptr" or s["init"][1][1] != "library":
        raise ExtractionError("symbol: mem-initialiser list changed: %r" % (s["init"],))
    mem_types = {m[1]: m[0] for m in src.members(SYM, r"class\s+symbol<Ret\(Args\.\.\.\)>")}
    # rule D1.member-init distinguishes an OWNING member (std::shared_ptr<void> library: copy-constructed, one more owner) from a
    # REFERENCE member (std::shared_ptr<void>& library: bound to the argument, no owner is added)
    lib_is_ref = "&" in mem_types.get("library", "")
    u.static_facts.append("symbol::library is declared `%s`: %s" % (mem_types.get("library", "?"), "a reference (owns nothing)" if lib_is_ref else "an owning copy of the handle"))

    class SymInit:
        name = "D1.member-init"

        def apply(self, text):
            if lib_is_ref:
                return "\n    self->handle = 0; self->library = *library;   /* handle(nullptr), library(library): reference member bound to the argument */\n" + text, 1
            return "\n    self->handle = 0; nsptr_copy(&self->library, library);   /* handle(nullptr), library(library) */\n" + text, 1
    f = u.add(F("sym_ctor", SYM, SYM_SIG,
                "void sym_ctor(struct symbol *self, const struct nsptr *library, const struct nstr *name)", P,
                pre=[SymInit()],
                rules=[Rule("D7.dlsym", r"\*\(void\*\*\)\(&this->handle\)\s*=\s*dlsym\(library\.get\(\),\s*name\.c_str\(\)\);", "self->handle = nitro_dlsym(nsptr_get(library), name);"),
                       Rule("D7.dlerror", r"\bdlerror\(\)", "nitro_dlerror()"),
                       Rule("D7.null", r"\bnullptr\b", "0")],
                must_fire=["D7.dlsym"]))
    f.cleanup = "" if lib_is_ref else "nsptr_release(&self->library)"
    f.custom_init = True
    u.add(F("sym_call", SYM, r"Ret operator\(\)\(Args\.\.\. args\)", "int sym_call(struct symbol *self)", P, dflt="0",
            rules=[Rule("D7.call-through-pointer", r"return\s+\(\*handle\)\(args\.\.\.\);", "return nitro_call_symbol(self->handle);")], must_fire=["D7.call-through-pointer"]))
    t = src.text(DL)
    if re.search(r"\bdl\s*\(\s*const\s+dl\s*&|\boperator=\s*\(|~dl\s*\(", t):
        raise ExtractionError("dl now declares copy/assignment/destructor: the implicit ones are no longer what is verified")
    u.static_facts.append("class dl declares no copy/move/destructor: the implicit memberwise ones copy/release the shared_ptr handle (read from the source on this run)")
    u.stubs = ["nitro_getenv", "nitro_dlopen", "nitro_dlsym", "nitro_dlclose", "nitro_dlerror", "nitro_call_symbol"]
    u.trusted = [
        "getenv(name): NULL iff the variable is unset, else its value (also when empty) (assumed)",
        "dlopen: NULL and a pending dlerror() text, or a handle to a newly mapped library; dlsym: symbol or failure with a pending dlerror() text, success leaves the pending text as it is; "
        "dlerror(): returns the pending text and clears it; dlclose(handle) unmaps, must not be given NULL (assumed)",
        "std::shared_ptr<void>(p, d): reference count 1 even for p == NULL; copies increment, destruction decrements, the deleter runs once with the stored pointer when the count reaches 0 (nsptr stub bodies)",
        "a constructor that raises destroys its already-constructed members (rule D5)",
    ]
    u.lemmas = [Lemma("lemma_dl_history", P, replace=["nitro_dlclose"], note="any copy/destroy step over library and symbol objects keeps: mapped <=> owners >= 1, dlclose exactly once at the last release")]
    return u
