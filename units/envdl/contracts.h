/* Contracts for nitro::env::get and nitro::dl (C19). */
#ifndef ENVDL_CONTRACTS_H
#define ENVDL_CONTRACTS_H
#include "nitro_rt.h"
#include "nitro_str.h"
#include "kf_gen.h"
#include "enf_gen.h"

struct ncstr { struct nstr text; };                 /* a NUL-terminated string owned by libc / the loader */
struct dl_exception { size_t what_id; const struct ncstr *dlerror_; /* 0: empty dlerror text */ };
struct nctrl { size_t refs; int deleter; };         /* shared_ptr control block */
struct nsptr { struct nctrl *cb; void *ptr; };
struct dl { struct nsptr handle; };
struct symbol { void *handle; struct nsptr library; };
enum { DELETER_NONE = 0, DELETER_dl_ctor_file = 1, DELETER_dl_ctor_self = 2 };

/* ghost process / loader state */
extern nbool g_env_set; extern struct ncstr g_env_val;
extern size_t g_dl_mapped, g_dlclose_calls, g_live_cbs;
extern const struct ncstr *g_dlerr;                 /* text a following dlerror() would return (NULL: none) */
extern nbool g_dlopen_ok, g_dlsym_ok; extern const struct ncstr *g_dl_errtext; extern void *g_dlsym_ret;
extern struct dl_exception g_dl_exc;                /* the nitro::dl::exception object being thrown */
extern struct nstr nitro_empty_string;
#define NITRO_UNIT_GLOBALS NITRO_STR_GLOBALS nbool g_env_set; struct ncstr g_env_val; size_t g_dl_mapped, g_dlclose_calls, g_live_cbs; \
   const struct ncstr *g_dlerr; nbool g_dlopen_ok, g_dlsym_ok; const struct ncstr *g_dl_errtext; void *g_dlsym_ret; struct dl_exception g_dl_exc; struct nstr nitro_empty_string;
void *nondet_ptr(void);
#define NITRO_HAVOC_UNIT NITRO_STR_HAVOC g_env_set = nondet_nbool(); g_env_val.text.len = nondet_size_t(); g_env_val.text.off = nondet_size_t(); \
   g_dl_mapped = nondet_size_t(); g_dlclose_calls = nondet_size_t(); g_live_cbs = nondet_size_t(); g_dlerr = nondet_ptr(); g_dl_errtext = nondet_ptr(); \
   nitro_empty_string.len = 0; nitro_empty_string.off = NSTR_NOOFF;
#define ED_OBJ(p) __CPROVER_is_fresh(p, sizeof(*(p)))
#define ED_REC(fn, a, b) (!NITRO_ENF_##fn || (g_in[0] == (size_t)(a) && g_in[1] == (size_t)(b)))
#define NITRO_THROW_DL(dle) do { dlexc_ctor(&g_dl_exc, dle, 0); nitro_exc = EXC_DL; NITRO_CLEANUP; return NITRO_DFLT; } while (0)

/* ---- libc / loader stubs (assumed contracts) ---- */
const struct ncstr *nitro_getenv(const struct nstr *name)
__CPROVER_requires(__CPROVER_r_ok(name, sizeof(*name)))
__CPROVER_assigns()
__CPROVER_ensures(g_env_set ==> __CPROVER_pointer_equals(__CPROVER_return_value, &g_env_val))
__CPROVER_ensures(!g_env_set ==> __CPROVER_return_value == 0);
static inline struct nstr nstr_from_cstr(const struct ncstr *c) { return c->text; }

void *nitro_dlopen(const struct nstr *filename)
__CPROVER_assigns(g_dl_mapped, g_dlerr, g_dlopen_ok, g_dl_errtext)
__CPROVER_ensures(g_dlopen_ok ==> (__CPROVER_is_fresh(__CPROVER_return_value, 1) && g_dl_mapped == __CPROVER_old(g_dl_mapped) + 1 && g_dlerr == __CPROVER_old(g_dlerr)))
__CPROVER_ensures(!g_dlopen_ok ==> (__CPROVER_return_value == 0 && g_dl_mapped == __CPROVER_old(g_dl_mapped) && g_dlerr != 0 && g_dlerr == g_dl_errtext));
void nitro_dlclose(void *handle)
__CPROVER_requires(handle != 0)                        /*@ dlclose_is_never_given_NULL */
__CPROVER_requires(g_dl_mapped >= 1)                   /*@ only_a_mapped_library_is_closed */
__CPROVER_assigns(g_dl_mapped, g_dlclose_calls)
__CPROVER_ensures(g_dl_mapped == __CPROVER_old(g_dl_mapped) - 1 && g_dlclose_calls == __CPROVER_old(g_dlclose_calls) + 1);
const struct ncstr *nitro_dlerror(void)
__CPROVER_assigns(g_dlerr)
__CPROVER_ensures(__CPROVER_return_value == __CPROVER_old(g_dlerr) && g_dlerr == 0);
void *nitro_dlsym(void *handle, const struct nstr *name)
__CPROVER_requires(g_dl_mapped >= 1)                   /*@ symbol_lookup_in_a_mapped_library */
__CPROVER_assigns(g_dlerr, g_dlsym_ok, g_dl_errtext, g_dlsym_ret)
__CPROVER_ensures(g_dlsym_ret == __CPROVER_return_value)
__CPROVER_ensures(g_dlsym_ok ==> g_dlerr == __CPROVER_old(g_dlerr))
__CPROVER_ensures(!g_dlsym_ok ==> (__CPROVER_return_value == 0 && g_dlerr != 0 && g_dlerr == g_dl_errtext));
int nitro_call_symbol(void *fp)
__CPROVER_requires(g_dl_mapped >= 1)                   /*@ library_still_mapped_when_a_symbol_is_called */
__CPROVER_assigns();

/* ---- std::shared_ptr<void> with a deleter: stub bodies ---- */
void dl_ctor_file_deleter(void *handle);
void dl_ctor_self_deleter(void *handle);
static inline void nsptr_init(struct nsptr *s, void *p, int deleter)
{
    s->cb = malloc(sizeof(struct nctrl));
    __CPROVER_assume(s->cb != 0);        /* ASSUMPTION: allocation succeeds */
    s->cb->refs = 1; s->cb->deleter = deleter; s->ptr = p; g_live_cbs++;
}
static inline void nsptr_copy(struct nsptr *dst, const struct nsptr *src)
{
    dst->cb = src->cb; dst->ptr = src->ptr;
    if (dst->cb) dst->cb->refs++;
}
static inline void nsptr_release(struct nsptr *s)
{
    if (s->cb)
    {
        s->cb->refs--;
        if (s->cb->refs == 0)
        {
            if (s->cb->deleter == DELETER_dl_ctor_file) dl_ctor_file_deleter(s->ptr);
            else if (s->cb->deleter == DELETER_dl_ctor_self) dl_ctor_self_deleter(s->ptr);
            free(s->cb); g_live_cbs--;
        }
    }
    s->cb = 0; s->ptr = 0;
}
static inline void *nsptr_get(const struct nsptr *s) { return s->ptr; }
/* a shared_ptr that co-owns a mapped library */
#define NSPTR_OWNS_LIB(s) (__CPROVER_is_fresh((s)->cb, sizeof(struct nctrl)) && (s)->cb->refs >= 1 && (s)->cb->refs < (((size_t)1) << 40) && \
     ((s)->cb->deleter == DELETER_dl_ctor_file || (s)->cb->deleter == DELETER_dl_ctor_self) && (s)->ptr != 0 && g_dl_mapped >= 1)

/* ======================= env::get ======================= */
struct nstr env_get(const struct nstr *name, const struct nstr *default_p)
__CPROVER_requires(nitro_exc == 0 && ED_OBJ(name) && ED_OBJ(default_p))
__CPROVER_requires(ED_REC(env_get, g_env_set, g_env_val.text.len))
__CPROVER_assigns()
__CPROVER_ensures(nitro_exc == 0)
__CPROVER_ensures(g_env_set ==> (__CPROVER_return_value.len == g_env_val.text.len && __CPROVER_return_value.off == g_env_val.text.off))   /*@ exact_value_whenever_set_even_if_empty */
__CPROVER_ensures(!g_env_set ==> (__CPROVER_return_value.len == default_p->len && __CPROVER_return_value.off == default_p->off));   /*@ default_only_when_unset */

struct nstr env_get_nodefault(const struct nstr *name)
__CPROVER_requires(nitro_exc == 0 && ED_OBJ(name) && nitro_empty_string.len == 0)
__CPROVER_requires(ED_REC(env_get_nodefault, g_env_set, g_env_val.text.len))
__CPROVER_assigns(nitro_exc)
__CPROVER_ensures((!g_env_set) == (nitro_exc != 0))                                              /*@ raises_iff_unset */
__CPROVER_ensures(nitro_exc == 0 || nitro_exc == EXC_NITRO)
__CPROVER_ensures(g_env_set ==> (__CPROVER_return_value.len == g_env_val.text.len && __CPROVER_return_value.off == g_env_val.text.off));   /*@ exact_value_whenever_set_even_if_empty */

/* ======================= dl::exception ======================= */
void dlexc_ctor(struct dl_exception *self, const struct ncstr *dle, size_t what_id)
__CPROVER_requires((NITRO_ENF_dlexc_ctor && ED_OBJ(self)) || (!NITRO_ENF_dlexc_ctor && __CPROVER_w_ok(self, sizeof(*self))))
__CPROVER_assigns(*self)
__CPROVER_ensures(self->dlerror_ == dle && self->what_id == what_id);                            /*@ carries_the_loader_diagnostic */
const struct ncstr *dlexc_dlerror(const struct dl_exception *self)
__CPROVER_requires(ED_OBJ(self))
__CPROVER_assigns()
__CPROVER_ensures(__CPROVER_return_value == self->dlerror_);

/* ======================= dl::dl ======================= */
#define DL_CTOR(name, PARAM, DEL) \
void name(struct dl *self, PARAM) \
__CPROVER_requires(nitro_exc == 0 && ED_OBJ(self) && g_dl_mapped < (((size_t)1) << 40)) \
__CPROVER_assigns(*self, nitro_exc, g_dl_mapped, g_dlerr, g_dlopen_ok, g_dl_errtext, g_dl_exc, g_live_cbs, g_dlclose_calls) \
__CPROVER_ensures((!g_dlopen_ok) == (nitro_exc != 0))                                            /*@ raises_iff_the_library_cannot_be_opened */ \
__CPROVER_ensures(nitro_exc == 0 || nitro_exc == EXC_DL)                                         /*@ raises_the_dl_exception */ \
__CPROVER_ensures(nitro_exc != 0 ==> (g_dl_exc.dlerror_ == g_dl_errtext && g_dl_errtext != 0))    /*@ carries_the_loader_diagnostic */ \
__CPROVER_ensures(nitro_exc != 0 ==> (g_dlclose_calls == __CPROVER_old(g_dlclose_calls) && g_live_cbs == __CPROVER_old(g_live_cbs) && g_dl_mapped == __CPROVER_old(g_dl_mapped)))  /*@ failed_open_closes_nothing_and_leaks_nothing */ \
__CPROVER_ensures(nitro_exc == 0 ==> (__CPROVER_is_fresh(self->handle.cb, sizeof(struct nctrl)) && self->handle.cb->refs == 1 && self->handle.cb->deleter == (DEL) && \
      self->handle.ptr != 0 && g_dl_mapped == __CPROVER_old(g_dl_mapped) + 1 && g_dlclose_calls == __CPROVER_old(g_dlclose_calls)))   /*@ sole_owner_of_a_mapped_library */
DL_CTOR(dl_ctor_file, const struct nstr *filename, DELETER_dl_ctor_file);
DL_CTOR(dl_ctor_self, int self_tag, DELETER_dl_ctor_self);

void dl_get(struct nsptr *ret, const struct dl *self)
__CPROVER_requires(nitro_exc == 0 && ED_OBJ(ret) && ED_OBJ(self) && NSPTR_OWNS_LIB(&self->handle))
__CPROVER_assigns(*ret, self->handle.cb->refs)
__CPROVER_ensures(nitro_exc == 0 && ret->cb == self->handle.cb && ret->ptr == self->handle.ptr && self->handle.cb->refs == __CPROVER_old(self->handle.cb->refs) + 1);  /*@ hands_out_a_co_owner */

/* ======================= symbol ======================= */
void sym_ctor(struct symbol *self, const struct nsptr *library, const struct nstr *name)
__CPROVER_requires(nitro_exc == 0 && ED_OBJ(self) && ED_OBJ(name) && ((NITRO_ENF_sym_ctor && ED_OBJ(library)) || (!NITRO_ENF_sym_ctor && __CPROVER_r_ok(library, sizeof(*library)))))
__CPROVER_requires((NITRO_ENF_sym_ctor && NSPTR_OWNS_LIB(library)) || (!NITRO_ENF_sym_ctor && library->cb != 0 && library->cb->refs >= 1 && library->ptr != 0 && g_dl_mapped >= 1))
__CPROVER_assigns(*self, nitro_exc, library->cb->refs, g_dlerr, g_dlsym_ok, g_dl_errtext, g_dlsym_ret, g_dl_exc)
__CPROVER_ensures((!g_dlsym_ok) == (nitro_exc != 0))                                             /*@ raises_iff_the_symbol_is_missing */
__CPROVER_ensures(nitro_exc == 0 || nitro_exc == EXC_DL)
__CPROVER_ensures(nitro_exc != 0 ==> (g_dl_exc.dlerror_ == g_dl_errtext && g_dl_errtext != 0))    /*@ carries_the_loader_diagnostic */
__CPROVER_ensures(nitro_exc != 0 ==> library->cb->refs == __CPROVER_old(library->cb->refs))       /*@ failed_lookup_keeps_no_reference */
__CPROVER_ensures(nitro_exc == 0 ==> (__CPROVER_pointer_equals(self->library.cb, library->cb) && self->library.ptr == library->ptr && library->cb->refs == __CPROVER_old(library->cb->refs) + 1))  /*@ symbol_keeps_the_library_mapped */
__CPROVER_ensures(nitro_exc == 0 ==> self->handle == g_dlsym_ret);                               /*@ holds_the_looked_up_address */

void dl_load(struct symbol *ret, struct dl *self, const struct nstr *name)
__CPROVER_requires(nitro_exc == 0 && ED_OBJ(ret) && ED_OBJ(self) && ED_OBJ(name) && NSPTR_OWNS_LIB(&self->handle))
__CPROVER_assigns(*ret, nitro_exc, self->handle.cb->refs, g_dlerr, g_dlsym_ok, g_dl_errtext, g_dlsym_ret, g_dl_exc)
__CPROVER_ensures((!g_dlsym_ok) == (nitro_exc != 0))                                             /*@ raises_iff_the_symbol_is_missing */
__CPROVER_ensures(nitro_exc != 0 ==> (self->handle.cb->refs == __CPROVER_old(self->handle.cb->refs) && g_dl_exc.dlerror_ == g_dl_errtext))
__CPROVER_ensures(nitro_exc == 0 ==> (ret->library.cb == self->handle.cb && self->handle.cb->refs == __CPROVER_old(self->handle.cb->refs) + 1))  /*@ symbol_keeps_the_library_mapped */
__CPROVER_ensures(g_dl_mapped == __CPROVER_old(g_dl_mapped));

int sym_call(struct symbol *self)
__CPROVER_requires(nitro_exc == 0 && ED_OBJ(self) && NSPTR_OWNS_LIB(&self->library) && self->handle != 0)
__CPROVER_assigns()
__CPROVER_ensures(nitro_exc == 0);
#endif
