// Native replay for the fixed_vector unit: runs one operation of the REAL nitro::lang::fixed_vector
// (header from the tree under test) next to a bounded std::vector reference and compares what
// properties C06/C07 make observable.  Used to replay CBMC counterexamples and as a small sweep.
//   fv_replay <op> <cap> <size> <k> <n> <throw_at>      exit 0 = conforms, 1 = deviation (printed), 2 = usage
//   fv_replay sweep <op>                                 all cap<=3, size<=cap, k<=cap+1, n<=cap+1, throw_at -1..2
#include <memory>
#include <iterator>
#include <nitro/lang/fixed_vector.hpp>

#include <cstdio>
#include <cstdlib>
#include <cstring>
#include <stdexcept>
#include <string>
#include <vector>

static int g_countdown = -1; // element assignment number g_countdown throws (0-based); -1 never
struct elem_throw : std::exception {};
struct E
{
    long v = 0;
    E() = default;
    E(long x) : v(x) {}
    E(const E&) = default;
    E(E&&) = default;
    E& operator=(const E& o)
    {
        tick();
        v = o.v;
        return *this;
    }
    E& operator=(E&& o)
    {
        tick();
        v = o.v;
        return *this;
    }
    static void tick()
    {
        if (g_countdown == 0)
        {
            g_countdown = -1;
            throw elem_throw();
        }
        if (g_countdown > 0)
            --g_countdown;
    }
};
using FV = nitro::lang::fixed_vector<E>;
using Ref = std::vector<long>;

static std::string why;
static bool fail(const std::string& s)
{
    why = s;
    return false;
}

static FV make(size_t cap, size_t size, long base = 100)
{
    FV v(cap);
    g_countdown = -1;
    for (size_t i = 0; i < size; ++i)
        v.push_back(E(base + (long)i));
    return v;
}
static Ref make_ref(size_t size, long base = 100)
{
    Ref r;
    for (size_t i = 0; i < size; ++i)
        r.push_back(base + (long)i);
    return r;
}
static bool same(const FV& v, const Ref& r, size_t cap)
{
    if (v.size() != r.size())
        return fail("size is " + std::to_string(v.size()) + ", reference has " + std::to_string(r.size()));
    if (v.capacity() != cap)
        return fail("capacity is " + std::to_string(v.capacity()) + ", expected " + std::to_string(cap));
    if (v.size() > v.capacity())
        return fail("size exceeds capacity");
    for (size_t i = 0; i < r.size(); ++i)
        if (v[i].v != r[i])
            return fail("element " + std::to_string(i) + " is " + std::to_string(v[i].v) + ", reference has " + std::to_string(r[i]));
    // forward and reverse iteration visit exactly the live elements
    size_t n = 0;
    for (auto it = v.begin(); it != v.end(); ++it, ++n)
        if (n >= r.size() || it->v != r[n])
            return fail("forward iteration deviates at step " + std::to_string(n));
    if (n != r.size())
        return fail("forward iteration visits " + std::to_string(n) + " elements");
    n = 0;
    for (auto it = v.rbegin(); it != v.rend() && n <= r.size(); ++it, ++n)
        if (n >= r.size() || (*it).v != r[r.size() - 1 - n])
            return fail("reverse iteration deviates at step " + std::to_string(n));
    if (n != r.size())
        return fail("reverse iteration visits " + std::to_string(n) + " elements");
    if (r.size() && (v.data() != &v[0] || v.cbegin() != v.begin() || v.cend() != v.end()))
        return fail("data()/cbegin()/cend() disagree with begin()/end()");
    return true;
}

// one case; returns true when the real container agrees with the reference
static bool run(const std::string& op, size_t cap, size_t size, size_t k, size_t n, int throw_at)
{
    if (size > cap)
        return true;
    FV v = make(cap, size);
    Ref r = make_ref(size);
    const Ref before = r;
    std::vector<E> src;
    for (size_t i = 0; i < n; ++i)
        src.push_back(E(500 + (long)i));
    bool raised = false, elem_raised = false;
    bool expect_raise = false;
    g_countdown = throw_at;
    try
    {
        if (op == "at" || op == "at_c" || op == "std_get")
        {
            expect_raise = k >= size;
            long got;
            if (op == "at")
                got = v.at(k).v;
            else if (op == "at_c")
                got = const_cast<const FV&>(v).at(k).v;
            else
            {
                switch (k)
                {
                case 0: got = std::get<0>(v).v; break;
                case 1: got = std::get<1>(v).v; break;
                case 2: got = std::get<2>(v).v; break;
                case 3: got = std::get<3>(v).v; break;
                default: got = std::get<4>(v).v; break;
                }
                expect_raise = (k > 4 ? 4 : k) >= size;
            }
            if (!expect_raise && got != r[k > 4 && op == "std_get" ? 4 : k])
                return fail("checked access returned a wrong element");
        }
        else if (op == "push_back" || op == "insert_cref" || op == "insert_rref" || op == "emplace_back")
        {
            expect_raise = size >= cap;
            E x(777);
            size_t idx;
            if (op == "push_back")
                idx = v.push_back(x);
            else if (op == "insert_cref")
                idx = v.insert(static_cast<const E&>(x));
            else if (op == "insert_rref")
                idx = v.insert(E(777));
            else
                idx = v.emplace_back(777L);
            if (idx != size)
                return fail("append returned index " + std::to_string(idx));
            r.push_back(777);
        }
        else if (op == "emplace")
        {
            expect_raise = k > size || size >= cap;
            if (k > cap)
                return true; // not an iterator of this container
            v.emplace(v.begin() + k, 777L);
            r.insert(r.begin() + k, 777);
        }
        else if (op == "erase")
        {
            expect_raise = k >= size;
            if (k > cap)
                return true;
            v.erase(v.begin() + k);
            r.erase(r.begin() + k);
        }
        else if (op == "pop_back")
        {
            expect_raise = size == 0;
            v.pop_back();
            r.pop_back();
        }
        else if (op == "insert_range" || op == "insert_ilist" || op == "push_back_range")
        {
            if (op == "push_back_range")
                k = size;
            if (k > cap)
                return true;
            expect_raise = k > size || n > cap - k;
            if (op == "push_back_range")
                v.push_back(src.begin(), src.end());
            else
                v.insert(v.begin() + k, src.begin(), src.end());
            for (size_t i = 0; i < n; ++i)
            {
                if (k + i < r.size())
                    r[k + i] = src[i].v;
                else
                    r.push_back(src[i].v);
            }
        }
        else if (op == "ctor_cap")
        {
            FV w(cap);
            return same(w, Ref(), cap);
        }
        else if (op == "ctor_ilist" || op == "ctor_iter_il")
        {
            // a range of n elements into capacity cap (ctor_ilist: capacity n)
            size_t c = op == "ctor_ilist" ? n : cap;
            expect_raise = n > c;
            FV w(c, src);
            Ref rr;
            for (auto& e : src)
                rr.push_back(e.v);
            return same(w, rr, c);
        }
        else if (op == "ctor_copy" || op == "ctor_iter_fv")
        {
            FV w(v);
            if (w.data() == v.data() && cap)
                return fail("copy shares storage with the source");
            if (!same(w, r, cap))
                return false;
            if (!same(v, before, cap))
                return fail("source changed by copy construction: " + why);
            if (size)
            {
                w[0] = E(-1);
                g_countdown = -1;
                if (v[0].v != before[0])
                    return fail("copy is not independent");
            }
            return true;
        }
        else if (op == "ctor_move")
        {
            E* storage = v.data();
            FV w(std::move(v));
            if (w.data() != storage)
                return fail("move construction did not transfer the storage");
            if (!same(w, r, cap))
                return false;
            if (v.size() != 0 || v.size() > v.capacity())
                return fail("moved-from source is not an empty well-formed container");
            return true;
        }
        else if (op == "assign_copy" || op == "assign_move" || op == "assign_list")
        {
            // target: capacity k (clamped), size min(n,k)
            size_t tc = k > 3 ? 3 : k, ts = n > tc ? tc : n;
            FV t = make(tc, ts, 900);
            g_countdown = throw_at;
            if (op == "assign_copy")
            {
                FV& ret = (t = v);
                if (&ret != &t)
                    return fail("operator= does not return *this");
                if (cap && t.data() == v.data())
                    return fail("copy assignment shares storage");
                if (!same(v, before, cap))
                    return fail("source changed by copy assignment");
            }
            else if (op == "assign_move")
            {
                t = std::move(v);
                if (v.size() != 0)
                    return fail("moved-from source keeps its size");
            }
            else
            {
                t = { E(100), E(101), E(102) };
                g_countdown = -1;
                return same(t, make_ref(3), 3);
            }
            g_countdown = -1;
            return same(t, r, cap);
        }
        else if (op == "index" || op == "index_c" || op == "front" || op == "front_c" || op == "back" || op == "back_c" ||
                 op == "size" || op == "empty" || op == "capacity" || op == "begin" || op == "end" || op == "begin_c" ||
                 op == "end_c" || op == "cbegin" || op == "cend" || op == "rbegin" || op == "rend" || op == "rbegin_c" ||
                 op == "rend_c" || op == "crbegin" || op == "crend" || op == "data" || op == "data_c")
        {
            const FV& c = v;
            if (v.empty() != (size == 0) || v.size() != size || v.capacity() != cap)
                return fail("size()/empty()/capacity() wrong");
            if (size)
            {
                if (&v.front() != v.data() || &c.front() != c.data() || &v.back() != v.data() + size - 1 || &c.back() != c.data() + size - 1)
                    return fail("front()/back() do not address the first/last live element");
                if (k < size && (&v[k] != v.data() + k || &c[k] != c.data() + k))
                    return fail("operator[] does not address slot k");
            }
            if (c.begin() != c.data() || c.end() != c.data() + size || c.cbegin() != c.data() || c.cend() != c.data() + size ||
                v.begin() != v.data() || v.end() != v.data() + size)
                return fail("begin()/end() do not delimit the live range");
            size_t cnt = 0;
            for (auto it = c.rbegin(); it != c.rend() && cnt <= size; ++it, ++cnt)
                if (cnt >= size || &*it != c.data() + (size - 1 - cnt))
                    return fail("const reverse iteration deviates");
            if (cnt != size)
                return fail("const reverse iteration visits a wrong number of elements");
            cnt = 0;
            for (auto it = c.crbegin(); it != c.crend() && cnt <= size; ++it, ++cnt)
                if (cnt >= size || &*it != c.data() + (size - 1 - cnt))
                    return fail("crbegin/crend iteration deviates");
            if (cnt != size)
                return fail("crbegin/crend visits a wrong number of elements");
            cnt = 0;
            for (auto it = c.begin(); it != c.end() && cnt <= cap; ++it)
                ++cnt;
            if (cnt != size)
                return fail("const forward iteration visits " + std::to_string(cnt) + " elements");
            return same(v, r, cap);
        }
        else if (op == "replace_move" || op == "replace_copy")
        {
            return true; // private helpers: exercised through the appends
        }
        else
        {
            std::fprintf(stderr, "unknown op %s\n", op.c_str());
            std::exit(2);
        }
    }
    catch (elem_throw&)
    {
        elem_raised = true;
    }
    catch (std::exception&)
    {
        raised = true;
    }
    g_countdown = -1;
    if (elem_raised)
    {
        // an element operation threw in the middle: the container must stay well formed and keep its capacity
        if (v.size() > v.capacity() || v.capacity() != cap)
            return fail("container not well formed after an element operation threw");
        if ((op == "push_back" || op == "insert_cref" || op == "insert_rref" || op == "emplace_back") && !same(v, before, cap))
            return fail("failed append changed the container: " + why);
        if ((op == "emplace" || op == "erase") && v.size() != size)
            return fail("size changed although the operation failed");
        return true;
    }
    if (raised != expect_raise)
        return fail(raised ? "raised although the operation can be satisfied" : "did not raise although the operation cannot be satisfied");
    if (raised)
    {
        bool single = !(op == "insert_range" || op == "insert_ilist" || op == "push_back_range");
        if (single)
            return same(v, before, cap) || fail("failed operation changed the container: " + why);
        if (v.size() > v.capacity() || v.capacity() != cap || v.size() < size)
            return fail("container not well formed after a failed range insert");
        return true;
    }
    return same(v, r, cap);
}

int main(int argc, char** argv)
{
    if (argc >= 3 && !std::strcmp(argv[1], "sweep"))
    {
        std::string op = argv[2];
        long cases = 0;
        for (size_t cap = 0; cap <= 3; ++cap)
            for (size_t size = 0; size <= cap; ++size)
                for (size_t k = 0; k <= cap + 1; ++k)
                    for (size_t n = 0; n <= cap + 1; ++n)
                        for (int t = -1; t <= 2; ++t)
                        {
                            ++cases;
                            if (!run(op, cap, size, k, n, t))
                            {
                                std::printf("DEVIATION op=%s cap=%zu size=%zu k=%zu n=%zu throw_at=%d : %s\n", op.c_str(), cap, size, k, n, t, why.c_str());
                                return 1;
                            }
                        }
        std::printf("CONFORMS op=%s cases=%ld\n", op.c_str(), cases);
        return 0;
    }
    if (argc < 7)
    {
        std::fprintf(stderr, "usage: %s <op> <cap> <size> <k> <n> <throw_at> | sweep <op>\n", argv[0]);
        return 2;
    }
    std::string op = argv[1];
    size_t cap = std::strtoull(argv[2], 0, 10), size = std::strtoull(argv[3], 0, 10), k = std::strtoull(argv[4], 0, 10), n = std::strtoull(argv[5], 0, 10);
    int t = std::atoi(argv[6]);
    if (cap > 64 || n > 64)
    {
        std::printf("SKIPPED input too large for a native replay (cap=%zu n=%zu)\n", cap, n);
        return 0;
    }
    if (!run(op, cap, size, k, n, t))
    {
        std::printf("DEVIATION op=%s cap=%zu size=%zu k=%zu n=%zu throw_at=%d : %s\n", op.c_str(), cap, size, k, n, t, why.c_str());
        return 1;
    }
    std::printf("CONFORMS op=%s cap=%zu size=%zu k=%zu n=%zu throw_at=%d\n", op.c_str(), cap, size, k, n, t);
    return 0;
}
