"""Native replay hook of the fixed_vector unit (see replay.cpp)."""
import os
from vf import replay as R

HERE = os.path.dirname(os.path.abspath(__file__))


def _op(job):
    return job[3:] if job.startswith("fv_") else job


def _build(bdir):
    exe = os.path.join(bdir, "fv_replay")
    if not os.path.exists(exe):
        rc, out = R.build_native(os.path.join(HERE, "replay.cpp"), exe)
        if rc != 0:
            return None, out
    return exe, ""


def _num(x):
    try:
        return int(str(x).rstrip("ulUL"))
    except Exception:
        return 0


def native_replay(job, inputs, bdir):
    if job.startswith("lemma"):
        return False, {"note": "lemma harness: no single-operation replay"}
    exe, err = _build(bdir)
    if not exe:
        return False, {"build_error": err}
    g = inputs.get("g_in") or []
    if len(g) < 4 or g[0] is None:
        return False, {"note": "the trace carries no recorded inputs for this function"}
    size, cap, k, n = (_num(g[i]) for i in range(4))
    # element-throw position is not recorded: try none, then the first three assignments
    for t in (-1, 0, 1, 2):
        cmd = [exe, _op(job), str(cap), str(size), str(k), str(n), str(t)]
        rc, out = R.run_native(cmd)
        if rc == 1 or rc < 0 or rc > 2:
            return True, {"cmd": " ".join(cmd[1:]), "exit": rc, "output": out.strip(), "inputs": {"size": size, "capacity": cap, "k": k, "n": n, "throw_at": t}}
    return False, {"cmd": " ".join(cmd[1:]), "output": out.strip(), "inputs": {"size": size, "capacity": cap, "k": k, "n": n}}


def native_sweep(job, bdir):
    exe, err = _build(bdir)
    if not exe:
        return False, {"build_error": err}
    ops = [_op(job)]
    if job.startswith("lemma") or job in ("fv_replace_move", "fv_replace_copy"):
        ops = ["push_back", "emplace", "erase", "insert_range", "begin", "assign_copy", "ctor_move", "pop_back"]
    for op in ops:
        rc, out = R.run_native([exe, "sweep", op], timeout=300)
        if rc == 1 or rc < 0 or rc > 2:
            return True, {"cmd": "sweep " + op, "exit": rc, "output": out.strip()}
    return False, {"cmd": "sweep " + " ".join(ops), "output": out.strip()}
