/* Lemma harnesses: steps from function contracts to the statements of C06/C07.
 * Every fv_* call below is replaced by its contract (the bodies are not used). */

/* C07: forward iteration visits exactly the live elements in order.
 * `for (it = v.begin(); it != v.end(); ++it)`; iterator type is T* (declared alias `iterator = value_type*`). */
void h_lemma_fv_forward_iteration(void)
{
    struct fixed_vector *v = malloc(sizeof(*v));
    __CPROVER_assume(v != 0);
    NITRO_HAVOC;
    nitro_exc = 0;
    size_t cap, sz;
    __CPROVER_assume(cap <= FV_MAXCAP && sz <= cap);
    v->capacity_ = cap; v->size_ = sz;
    v->data_ = malloc(cap * sizeof(elem));
    __CPROVER_assume(v->data_ != 0);
    elem *first = fv_begin(v);      /* contract assumes wf(v) via requires: checked as an assertion here */
    elem *last = fv_end(v);
    size_t n = 0;
    for (elem *it = first; it != last; ++it)
        __CPROVER_assigns(it, n)
        __CPROVER_loop_invariant(n <= v->size_ && it == v->data_ + n)
        __CPROVER_decreases(v->size_ - n)
    {
        __CPROVER_assert(it == &v->data_[n], "the n-th visited element is data_[n]");
        __CPROVER_assert(n < v->size_, "only live elements are visited");
        ++n;
    }
    __CPROVER_assert(n == v->size_, "every live element is visited exactly once");
    __CPROVER_assert(0, "CANARY lemma reached");
}

/* C07: reverse iteration visits them in reverse order.  std::reverse_iterator: *r == *(base-1), ++r is --base. */
void h_lemma_fv_reverse_iteration(void)
{
    struct fixed_vector *v = malloc(sizeof(*v));
    __CPROVER_assume(v != 0);
    NITRO_HAVOC;
    nitro_exc = 0;
    size_t cap, sz;
    __CPROVER_assume(cap <= FV_MAXCAP && sz <= cap);
    v->capacity_ = cap; v->size_ = sz;
    v->data_ = malloc(cap * sizeof(elem));
    __CPROVER_assume(v->data_ != 0);
    struct nitro_rev it = fv_rbegin(v);
    struct nitro_rev last = fv_rend(v);
    size_t n = 0;
    while (it.base != last.base)
        __CPROVER_assigns(it, n)
        __CPROVER_loop_invariant(n <= v->size_ && it.base == v->data_ + (v->size_ - n))
        __CPROVER_decreases(v->size_ - n)
    {
        const elem *cur = it.base - 1;                 /* operator* of reverse_iterator */
        __CPROVER_assert(cur == &v->data_[v->size_ - 1 - n], "the n-th visited element is data_[size-1-n]");
        it.base = it.base - 1;                         /* operator++ of reverse_iterator */
        ++n;
    }
    __CPROVER_assert(n == v->size_, "every live element is visited exactly once, last first");
    __CPROVER_assert(0, "CANARY lemma reached");
}

/* C06/C07, histories: induction step.  From an arbitrary well-formed container, one arbitrary
 * operation with arbitrary arguments leads to a well-formed container of the same capacity and storage
 * (so by induction every finite history stays inside the capacity slots), whether it returns or raises. */
int nondet_int(void);
elem nondet_elem(void);
void h_lemma_fv_history(void)
{
    struct fixed_vector *v = malloc(sizeof(*v));
    __CPROVER_assume(v != 0);
    NITRO_HAVOC;
    nitro_exc = 0;
    size_t cap, sz;
    __CPROVER_assume(cap <= FV_MAXCAP && sz <= cap);
    v->capacity_ = cap; v->size_ = sz;
    v->data_ = malloc(cap * sizeof(elem));
    __CPROVER_assume(v->data_ != 0);
    elem *storage = v->data_;
    size_t k; __CPROVER_assume(k <= cap);
    elem x = nondet_elem();
    int op = nondet_int();
    switch (op)
    {
    case 0: fv_push_back(v, x); break;
    case 1: fv_emplace_back(v, x); break;
    case 2: fv_insert_cref(v, x); break;
    case 3: fv_insert_rref(v, x); break;
    case 4: fv_pop_back(v); break;
    case 5: g_k = k; fv_erase(v, v->data_ + k); break;
    case 6: g_k = k; fv_emplace(v, v->data_ + k, x); break;
    default: fv_at(v, k); break;
    }
    __CPROVER_assert(v->size_ <= v->capacity_, "size never exceeds capacity after any operation");
    __CPROVER_assert(v->capacity_ == cap, "capacity is fixed at construction");
    __CPROVER_assert(v->data_ == storage, "the storage is never replaced by a single-element operation");
    if (nitro_exc == EXC_NITRO)
        __CPROVER_assert(v->size_ == sz, "an operation that cannot be satisfied leaves the size unchanged");
    __CPROVER_assert(0, "CANARY lemma reached");
}
