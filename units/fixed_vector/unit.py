"""fixed_vector unit: every member of nitro::lang::fixed_vector<T> and std::get<I>.

Binding (rule D1): T := elem (opaque 64-bit value, assignment may raise EXC_ELEM);
Iter := const elem*; Iterabel := fixed_vector (copy constructor) or an
initializer_list/std::array view {p, n}; Args... := one elem; I := a runtime index.
"""
import re
from vf.extract import Rule, CallRule
from vf.unit import Unit, F, Lemma

REL = "include/nitro/lang/fixed_vector.hpp"
CLS = r"class\s+fixed_vector\b"
P = ["C06", "C07"]

# D6: overload table — which member an unqualified call denotes, by argument count
MEMBER_CALLS = {
    ("begin", 0): "fv_begin", ("end", 0): "fv_end", ("cbegin", 0): "fv_cbegin", ("cend", 0): "fv_cend",
    ("insert", 3): "fv_insert_range", ("at", 1): "fv_at",
}
MAY_RAISE = {"fv_insert_range", "fv_replace_move", "fv_replace_copy", "fv_ctor_copy", "fv_ctor_iter_il",
             "fv_ctor_iter_fv", "fv_at"}


def member_call(m, args):
    name = m.group(1)
    if name == "replace":
        # overload chosen by std::is_move_assignable<T>: elem is move assignable
        return "fv_replace_move(self, &(%s), %s); NITRO_PROPAGATE" % (args[0], args[1])
    key = (name, len(args))
    if key not in MEMBER_CALLS:
        return None
    c = MEMBER_CALLS[key]
    s = "%s(%s)" % (c, ", ".join(["self"] + args))
    if c in MAY_RAISE:
        s += "; NITRO_PROPAGATE"
    return s


def std_move(m, args):
    a = args[0]
    if re.search(r"(^|[.>])data_$", a):
        return "nitro_uptr_move(&%s)" % a
    return "(%s)" % a


def local_fv(text):
    """`fixed_vector tmp(args);` -> declaration, constructor call chosen by arity/first argument,
    destructor at the end of the enclosing block (rule D5)."""
    n = 0
    while True:
        m = re.search(r"\bfixed_vector\s+(\w+)\(([^;]*)\);", text)
        if not m:
            return text, n
        n += 1
        name, args = m.group(1), m.group(2)
        nargs = len([a for a in args.split(",") if a.strip()])
        ctor = {1: "fv_ctor_copy", 2: "fv_ctor_iter_il"}[nargs]
        new = "struct fixed_vector %s; %s(&%s, %s); NITRO_PROPAGATE;" % (name, ctor, name, args)
        # enclosing block end
        depth, i = 0, m.end()
        while i < len(text):
            if text[i] == "{":
                depth += 1
            elif text[i] == "}":
                if depth == 0:
                    break
                depth -= 1
            i += 1
        # insert the destructor before a trailing `return ...;` of that block if there is one
        seg = text[m.end():i]
        r = re.search(r"\n\s*return\b[^;]*;\s*$", seg)
        at = m.end() + (r.start() if r else len(seg))
        text = text[:m.start()] + new + text[m.end():at] + "\n            fv_dtor(&%s);" % name + text[at:]


class LocalFv:
    name = "D5.local-fixed_vector"

    def apply(self, text):
        return local_fv(text)


def recv_ilist(n):
    return [Rule("D6.ilist." + n, r"\b%s\.size\(\)" % n, "(%s)->n" % n),
            Rule("D6.ilist." + n, r"\b%s\.begin\(\)" % n, "(%s)->p" % n),
            Rule("D6.ilist." + n, r"\b%s\.end\(\)" % n, "((%s)->p + (%s)->n)" % (n, n))]


def recv_fv(n):
    return [Rule("D6.fv." + n, r"\b%s\.begin\(\)" % n, "fv_begin_c(%s)" % n),
            Rule("D6.fv." + n, r"\b%s\.end\(\)" % n, "fv_end_c(%s)" % n)]


def refparam(n):
    return [Rule("D3.refparam." + n, r"(?<![\w.>&])%s\b(?!\s*\()" % n, "(*%s)" % n),
            Rule("D3.refparam-addr." + n, r"&\s*%s\b" % n, n)]


def build(src):
    u = Unit("fixed_vector", src)
    u.members["fv"] = src.members(REL, CLS)
    names = [m[1] for m in u.members["fv"]]
    if names != ["size_", "capacity_", "data_"]:
        raise Exception("fixed_vector data members changed: %r" % names)

    def minit(ty, name, expr):
        if expr is None:
            expr = "0" if "unique_ptr" not in ty else "0 /* default-constructed unique_ptr */"
        return "NITRO_INIT(self->%s, %s);" % (name, expr)
    u.member_init["fv"] = minit
    u.ctor_cleanup["fv"] = "fv_dtor(self)"

    u.rules = [
        CallRule("D3.std-forward", r"std::forward<[^>]*>\(", lambda m, a: "(%s)" % a[0]),
        Rule("D1.pack-expansion", r"\.\.\.", ""),
        CallRule("D3.std-move", r"std::move\(", std_move),
        Rule("D7.make_unique", r"std::make_unique<value_type\[\]>\(", "nitro_new_elem_array("),
        CallRule("D1.value_type-ctor", r"\bvalue_type\(", lambda m, a: "(%s)" % a[0]),
        CallRule("D7.std-distance", r"std::distance\(", lambda m, a: "((%s) - (%s))" % (a[1], a[0])),
        CallRule("D7.reverse_iterator", r"\b(?:const_)?reverse_iterator\(", lambda m, a: "nitro_make_rev(%s)" % a[0]),
        LocalFv(),
        Rule("D3.this-assign", r"\*this\s*=\s*([^;]+);", r"fv_assign_move(self, &\1);"),
        Rule("D3.this-arrow", r"\bthis->", ""),
        Rule("D3.this", r"\*this\b", "(*self)"),
        Rule("D3.this-ptr", r"\bthis\b", "self"),
        CallRule("D6.member-call", r"(?<![\w.>])(begin|end|cbegin|cend|insert|replace|at)\(", member_call),
        CallRule("D4.raise", r"(?<![\w:])raise\(", lambda m, a: "NITRO_THROW(EXC_NITRO)"),
        Rule("D7.uptr-get", r"\bdata_\.get\(\)", "data_"),
        Rule("D3.members", r"(?<![\w.>])(size_|capacity_|data_)\b", r"self->\1"),
        Rule("D7.uptr-move-assign", r"self->data_\s*=\s*nitro_uptr_move\(([^;]*)\);", r"nitro_uptr_move_assign(&self->data_, nitro_uptr_move(\1));"),
        Rule("D1.elem-assign", r"(?m)^(\s*)((?:self->data_\[[^\n;=]*\])|(?:\(\*\w+\)))\s*=(?!=)\s*([^;]+);",
             r"\1elem_assign(&(\2), \3); NITRO_PROPAGATE;"),
        Rule("D1.types", r"\bsize_type\b", "size_t"),
        Rule("D1.types", r"\bvalue_type\b", "elem"),
        Rule("D2.auto", r"\bauto\b", "__auto_type"),
    ]

    sfv = "struct fixed_vector *self"
    csfv = "const struct fixed_vector *self"
    W = CLS

    def add(name, sig, c, **kw):
        kw.setdefault("props", P)
        return u.add(F(name, REL, sig, c, within=W, **kw))

    add("fv_ctor_cap", r"constexpr fixed_vector\(size_type capacity\)", "void fv_ctor_cap(%s, size_t capacity)" % sfv, ctor="fv")
    it = r"constexpr fixed_vector\(size_type capacity, const Iterabel& array\)"
    add("fv_ctor_iter_fv", it, "void fv_ctor_iter_fv(%s, size_t capacity, const struct fixed_vector *array)" % sfv,
        ctor="fv", rules=recv_fv("array"))
    add("fv_ctor_iter_il", it, "void fv_ctor_iter_il(%s, size_t capacity, const struct nitro_ilist *array)" % sfv,
        ctor="fv", rules=recv_ilist("array"))
    add("fv_ctor_ilist", r"constexpr fixed_vector\(const std::initializer_list<value_type>& list\)",
        "void fv_ctor_ilist(%s, const struct nitro_ilist *list)" % sfv, ctor="fv", rules=recv_ilist("list"))
    add("fv_ctor_copy", r"constexpr fixed_vector\(const fixed_vector<value_type>& v\)",
        "void fv_ctor_copy(%s, const struct fixed_vector *v)" % sfv, ctor="fv",
        pre=[Rule("D1.delegate", r"NITRO_DELEGATE_fixed_vector\(v\.capacity_, v\);",
                  "fv_ctor_iter_fv(self, v->capacity_, v); NITRO_PROPAGATE;"),
             Rule("D1.delegate", r"NITRO_DELEGATE_fixed_vector\(([^;]*)\bv\.(\w+)([^;]*), v\);",
                  r"fv_ctor_iter_fv(self, \1v->\2\3, v); NITRO_PROPAGATE;")],
        must_fire=["D1.delegate"])
    add("fv_ctor_move", r"constexpr fixed_vector\(fixed_vector<value_type>&& v\)",
        "void fv_ctor_move(%s, struct fixed_vector *v)" % sfv, ctor="fv", rules=refparam("v"))
    add("fv_assign_copy", r"constexpr fixed_vector& operator=\(const fixed_vector& v\)",
        "struct fixed_vector *fv_assign_copy(%s, const struct fixed_vector *v)" % sfv, dflt="0", ret_ref=True,
        pre=[Rule("D6.copy-ctor-arg", r"\bfixed_vector tmp\(v\);", "fixed_vector tmp(__v);")],
        rules=refparam("v") + [Rule("D6.copy-ctor-arg", r"__v\b", "v")])
    add("fv_assign_move", r"constexpr fixed_vector& operator=\(fixed_vector&& v\)",
        "struct fixed_vector *fv_assign_move(%s, struct fixed_vector *v)" % sfv, dflt="0", ret_ref=True, rules=refparam("v"))
    add("fv_assign_list", r"constexpr fixed_vector& operator=\(const std::initializer_list<value_type>& l\)",
        "struct fixed_vector *fv_assign_list(%s, const struct nitro_ilist *l)" % sfv, dflt="0", ret_ref=True,
        pre=[Rule("D6.ilist.l", r"\bl\.size\(\)", "(l)->n")])
    add("fv_empty", r"constexpr bool empty\(\) const", "nbool fv_empty(%s)" % csfv, dflt="0")
    add("fv_size", r"constexpr size_type size\(\) const", "size_t fv_size(%s)" % csfv, dflt="0")
    add("fv_capacity", r"constexpr size_type capacity\(\) const", "size_t fv_capacity(%s)" % csfv, dflt="0")
    add("fv_index", r"constexpr reference operator\[\]\(const size_type& key\)", "elem *fv_index(%s, size_t key)" % sfv, dflt="0", ret_ref=True)
    add("fv_at", r"constexpr reference at\(const size_type& key\)", "elem *fv_at(%s, size_t key)" % sfv, dflt="0", ret_ref=True)
    add("fv_index_c", r"constexpr const_reference operator\[\]\(const size_type& key\) const", "const elem *fv_index_c(%s, size_t key)" % csfv, dflt="0", ret_ref=True)
    add("fv_at_c", r"constexpr const_reference at\(const size_type& key\) const", "const elem *fv_at_c(%s, size_t key)" % csfv, dflt="0", ret_ref=True)
    add("fv_front", r"constexpr reference front\(\) noexcept", "elem *fv_front(%s)" % sfv, dflt="0", ret_ref=True)
    add("fv_front_c", r"constexpr const_reference front\(\) const noexcept", "const elem *fv_front_c(%s)" % csfv, dflt="0", ret_ref=True)
    add("fv_back", r"constexpr reference back\(\) noexcept", "elem *fv_back(%s)" % sfv, dflt="0", ret_ref=True)
    add("fv_back_c", r"constexpr const_reference back\(\) const noexcept", "const elem *fv_back_c(%s)" % csfv, dflt="0", ret_ref=True)
    add("fv_emplace", r"constexpr void emplace\(pointer const pos, Args&&\.\.\. args\)", "void fv_emplace(%s, elem *pos, elem args)" % sfv)
    add("fv_emplace_back", r"constexpr size_type emplace_back\(Args&&\.\.\. args\)", "size_t fv_emplace_back(%s, elem args)" % sfv, dflt="0")
    add("fv_insert_cref", r"constexpr size_type insert\(const_reference value\)", "size_t fv_insert_cref(%s, elem value)" % sfv, dflt="0")
    add("fv_insert_rref", r"constexpr size_type insert\(value_type&& value\)", "size_t fv_insert_rref(%s, elem value)" % sfv, dflt="0")
    add("fv_insert_range", r"constexpr void insert\(iterator const pos, Iter start, Iter end\)",
        "void fv_insert_range(%s, elem *pos, const elem *start, const elem *end)" % sfv)
    add("fv_insert_ilist", r"constexpr void insert\(iterator const pos, std::initializer_list<value_type>& list\)",
        "void fv_insert_ilist(%s, elem *pos, const struct nitro_ilist *list)" % sfv, rules=recv_ilist("list"))
    add("fv_push_back", r"constexpr size_type push_back\(const_reference value\)", "size_t fv_push_back(%s, elem value)" % sfv, dflt="0")
    add("fv_push_back_range", r"constexpr void push_back\(Iter start, Iter end\)", "void fv_push_back_range(%s, const elem *start, const elem *end)" % sfv)
    add("fv_pop_back", r"constexpr void pop_back\(\)", "void fv_pop_back(%s)" % sfv)
    PI = P + ["C20"]   # the iterator accessors also serve C20 (enumerate / reverse over a fixed_vector)
    for n in ["begin", "end"]:
        add("fv_" + n, r"constexpr iterator %s\(\) noexcept" % n, "elem *fv_%s(%s)" % (n, sfv), dflt="0", props=PI)
        add("fv_%s_c" % n, r"constexpr const_iterator %s\(\) const noexcept" % n, "const elem *fv_%s_c(%s)" % (n, csfv), dflt="0", props=PI)
        add("fv_c" + n, r"constexpr const_iterator c%s\(\) const noexcept" % n, "const elem *fv_c%s(%s)" % (n, csfv), dflt="0", props=PI)
    REV0 = "(struct nitro_rev){0}"
    for n in ["rbegin", "rend"]:
        # the declared return type decides the iteration direction: it is part of the signature pattern
        add("fv_" + n, r"constexpr reverse_iterator %s\(\) noexcept" % n, "struct nitro_rev fv_%s(%s)" % (n, sfv), dflt=REV0, props=PI)
        add("fv_%s_c" % n, r"constexpr const_reverse_iterator %s\(\) const noexcept" % n, "struct nitro_rev fv_%s_c(%s)" % (n, csfv), dflt=REV0, props=PI,
            rules=[Rule("D6.const-overload", r"\b(begin|end)\(\)", r"fv_\1_c(self)")])
        add("fv_c" + n, r"constexpr const_reverse_iterator c%s\(\) const noexcept" % n, "struct nitro_rev fv_c%s(%s)" % (n, csfv), dflt=REV0, props=PI,
            rules=[Rule("D6.const-overload", r"\b(cbegin|cend)\(\)", r"fv_\1(self)")])
    add("fv_erase", r"constexpr void erase\(iterator pos\)", "void fv_erase(%s, elem *pos)" % sfv)
    add("fv_data", r"constexpr pointer data\(\) noexcept", "elem *fv_data(%s)" % sfv, dflt="0")
    add("fv_data_c", r"constexpr const_pointer data\(\) const noexcept", "const elem *fv_data_c(%s)" % csfv, dflt="0")
    add("fv_replace_move", r"replace\(A& a, A&& b\)", "void fv_replace_move(%s, elem *a, elem b)" % sfv, rules=refparam("a"))
    add("fv_replace_copy", r"replace\(A& a, const A& b\)", "void fv_replace_copy(%s, elem *a, elem b)" % sfv, rules=refparam("a"))
    u.add(F("fv_std_get", REL, r"T& get\(nitro::lang::fixed_vector<T>& c\)", "elem *fv_std_get(size_t I, struct fixed_vector *c)",
            P, dflt="0", ret_ref=True,
            rules=[Rule("D6.receiver", r"return\s+c\.at\(I\);", "elem *nitro_r = fv_at(c, I); NITRO_PROPAGATE; return *nitro_r;")],
            must_fire=["D6.receiver"]))

    u.stubs = ["elem_assign"]
    u.trusted = [
        "extraction rules D1-D7 (DESIGN.md 3.2): T := elem, Iter := const elem*, Iterabel := fixed_vector | {p,n}, Args := one elem",
        "std::make_unique<T[]>(n) allocates exactly n value-initialised elements and never fails (bad_alloc not modelled)",
        "std::unique_ptr<T[]>: move nulls the source, move assignment releases the old array exactly once, destructor deletes a non-null array",
        "elem_assign: T's assignment either stores the value or raises without other effects (assumed contract)",
        "std::reverse_iterator<T*>: *r == *(base-1), ++r decrements base (nitro_rev stub)",
        "std::initializer_list / std::array argument seen as {pointer, length}",
    ]
    u.lemmas = [
        Lemma("lemma_fv_forward_iteration", P + ["C20"], replace=["fv_begin", "fv_end"],
              note="for (it = begin(); it != end(); ++it) visits data_[0..size) in order"),
        Lemma("lemma_fv_reverse_iteration", P + ["C20"], replace=["fv_rbegin", "fv_rend"],
              note="for (it = rbegin(); it != rend(); ++it) visits data_[size-1..0]"),
        Lemma("lemma_fv_history", P,
              replace=["fv_push_back", "fv_pop_back", "fv_erase", "fv_emplace", "fv_emplace_back", "fv_at",
                       "fv_insert_cref", "fv_insert_rref"],
              note="one arbitrary step from an arbitrary well-formed state re-establishes wf (induction step over histories)"),
    ]
    return u
