/* Contracts for nitro::lang::fixed_vector<T> (T := elem), written on prototypes; the
 * definitions are generated from /repo on every run.  Top-level postconditions are
 * transcribed from properties C06 / C07; frames and helper preconditions from the code.
 * A trailing  /*@ tag * /  names the clause in reports. */
#ifndef FV_CONTRACTS_H
#define FV_CONTRACTS_H
#include "nitro_rt.h"
#include "kf_gen.h"
#include "enf_gen.h"

struct fixed_vector { size_t size_; size_t capacity_; elem *data_; };
struct nitro_ilist { const elem *p; size_t n; };      /* initializer_list / std::array view */
struct nitro_rev { const elem *base; };                /* std::reverse_iterator<T*> */

extern size_t g_live_arrays; /* ghost: arrays allocated by make_unique<T[]> and not yet deleted (modular counter) */
extern size_t g_k;           /* ghost: index a position argument denotes (pos == data_ + g_k) */
#define NITRO_UNIT_GLOBALS size_t g_live_arrays; size_t g_k;
#define NITRO_HAVOC_UNIT g_k = nondet_size_t(); g_live_arrays = nondet_size_t();

#define NITRO_INIT(lhs, e) lhs = (e)
#ifdef NITRO_SMALL
#define FV_MAXCAP ((size_t)3)      /* trace runs only: small counterexamples for the native replay */
#else
#define FV_MAXCAP (((size_t)1) << 40)
#endif

/* ---- library stubs with bodies (their behaviour is the assumption, see trusted_base) ---- */
static inline struct nitro_rev nitro_make_rev(const elem *b) { struct nitro_rev r; r.base = b; return r; }
static inline elem *nitro_new_elem_array(size_t n)
{
    elem *p = calloc(n, sizeof(elem));
    __CPROVER_assume(p != 0);          /* ASSUMPTION: allocation succeeds (no bad_alloc) */
    g_live_arrays++;
    return p;
}
static inline elem *nitro_uptr_move(elem **src) { elem *p = *src; *src = 0; return p; }
static inline void nitro_uptr_move_assign(elem **dst, elem *p)
{
    elem *old = *dst;
    *dst = p;
    if (old) { free(old); g_live_arrays--; }
}
/* ~fixed_vector() = default: destroys data_ (rule D5) */
static inline void fv_dtor(struct fixed_vector *self)
{
    if (self->data_) { free(self->data_); g_live_arrays--; }
    self->data_ = 0;
}

/* input recording for the replay: active only in the function being enforced (g_in is havocked by the
 * harness, so the assumption makes the trace show the pre-state values) */
#define FV_REC(fn, sz, cap, k, n) (!NITRO_ENF_##fn || (g_in[0] == (size_t)(sz) && g_in[1] == (size_t)(cap) && g_in[2] == (size_t)(k) && g_in[3] == (size_t)(n)))

/* ---- representation invariant ---- */
#define FV_SHAPE(v) ((v)->capacity_ <= FV_MAXCAP && (v)->size_ <= (v)->capacity_)
/* live container: owns one array of exactly capacity_ elements */
#define FV_PRE_LIVE(v) (FV_SHAPE(v) && __CPROVER_is_fresh((v)->data_, (v)->capacity_ * sizeof(elem)))
/* live or moved-from (null storage, size 0) */
#define FV_PRE_ANY(v) (FV_SHAPE(v) && (((v)->data_ == 0 && (v)->size_ == 0) || __CPROVER_is_fresh((v)->data_, (v)->capacity_ * sizeof(elem))))
/* KNOWN FINDING fv_moved_from_append: a moved-from container keeps capacity_ > 0 on null storage,
 * so operations that store an element dereference a null pointer.  In exclude mode the region
 * (data_ == NULL) is taken out of the precondition; in full mode it is part of it. */
#define FV_PRE_MOVED_FROM(v) (FV_SHAPE(v) && (v)->data_ == 0 && (v)->size_ == 0 && (v)->capacity_ > 0)
#if KF_fv_moved_from_append && NITRO_KF_REGION
#define FV_PRE_STORE(v) FV_PRE_MOVED_FROM(v)   /* region run: only the listed region */
#elif KF_fv_moved_from_append
#define FV_PRE_STORE(v) FV_PRE_LIVE(v)         /* region excluded: everything else must be discharged */
#else
#define FV_PRE_STORE(v) FV_PRE_ANY(v)          /* not a known finding: enforced in full */
#endif

/* used inside __CPROVER_old / __CPROVER_loop_entry only: DFCC takes the snapshot iff the address is readable */
#define FV_ELT(v, k) ((v)->data_[(k) & ((size_t)0 - (size_t)((k) < (v)->capacity_))])   /* index clamped to 0 when out of range: no ?: allowed inside old() */
/* pos is an iterator of this container: data_ + g_k with g_k <= capacity_ (null for a moved-from one) */
#define FV_K(v, pos) ((size_t)((pos) - (v)->data_))
#define FV_POS(fn, v, pos) ((!NITRO_ENF_##fn || (g_k <= (v)->capacity_ && (pos) == (v)->data_ + g_k)) && \
    __CPROVER_same_object(pos, (v)->data_) && __CPROVER_POINTER_OFFSET(pos) % sizeof(elem) == 0 && FV_K(v, pos) <= (v)->capacity_)
/* every live element (witness g_w) is unchanged */
#define FV_LIVE_UNCHANGED(v) (g_w < __CPROVER_old((v)->size_) ==> (v)->data_[g_w] == __CPROVER_old(FV_ELT(v, g_w)))
#define FV_SAME_HEADER(v) ((v)->size_ == __CPROVER_old((v)->size_) && (v)->capacity_ == __CPROVER_old((v)->capacity_) && (v)->data_ == __CPROVER_old((v)->data_))

/* ======================= construction ======================= */
void fv_ctor_cap(struct fixed_vector *self, size_t capacity)
__CPROVER_requires(nitro_exc == 0 && __CPROVER_is_fresh(self, sizeof(*self)) && capacity <= FV_MAXCAP)
__CPROVER_requires(FV_REC(fv_ctor_cap, 0, capacity, 0, 0))
__CPROVER_assigns(*self, g_live_arrays)
__CPROVER_ensures(nitro_exc == 0)
__CPROVER_ensures(self->size_ == 0 && self->capacity_ == capacity)                       /*@ empty_with_given_capacity */
__CPROVER_ensures(__CPROVER_is_fresh(self->data_, capacity * sizeof(elem)))               /*@ owns_exactly_capacity_slots */
__CPROVER_ensures(g_live_arrays == __CPROVER_old(g_live_arrays) + 1);

/* [start, end) is a readable range of FV_N elements; g_n generates it when the function is the one being enforced */
#define FV_N(startp, endp) ((size_t)((endp) - (startp)))
#define FV_RANGE_PRE(fn, startp, endp) \
   (((NITRO_ENF_##fn && g_n <= FV_MAXCAP && __CPROVER_is_fresh(startp, (g_n == 0 ? 1 : g_n) * sizeof(elem)) && (endp) == (startp) + g_n) || \
     (!NITRO_ENF_##fn && __CPROVER_same_object(startp, endp) && (startp) <= (endp) && __CPROVER_r_ok(startp, FV_N(startp, endp) * sizeof(elem)))) && \
    FV_N(startp, endp) <= FV_MAXCAP)

void fv_ctor_iter_il(struct fixed_vector *self, size_t capacity, const struct nitro_ilist *array)
__CPROVER_requires(nitro_exc == 0 && __CPROVER_is_fresh(self, sizeof(*self)) && capacity <= FV_MAXCAP)
__CPROVER_requires(__CPROVER_is_fresh(array, sizeof(*array)) && array->n <= FV_MAXCAP && __CPROVER_is_fresh(array->p, (array->n == 0 ? 1 : array->n) * sizeof(elem)))
__CPROVER_requires(FV_REC(fv_ctor_iter_il, 0, capacity, 0, array->n))
__CPROVER_assigns(*self, g_live_arrays, nitro_exc)
__CPROVER_ensures((array->n > capacity) ==> nitro_exc != 0)                               /*@ range_that_does_not_fit_raises */
__CPROVER_ensures(nitro_exc == EXC_NITRO ==> array->n > capacity)
__CPROVER_ensures(nitro_exc == 0 || nitro_exc == EXC_NITRO || nitro_exc == EXC_ELEM)
__CPROVER_ensures(nitro_exc == 0 ==> (self->size_ == array->n && self->capacity_ == capacity))   /*@ holds_the_range */
__CPROVER_ensures(nitro_exc == 0 ==> __CPROVER_is_fresh(self->data_, capacity * sizeof(elem)))
__CPROVER_ensures((nitro_exc == 0 && g_w < array->n) ==> self->data_[g_w] == array->p[g_w])     /*@ elements_in_order */
__CPROVER_ensures(g_live_arrays == __CPROVER_old(g_live_arrays) + (nitro_exc == 0 ? 1 : 0));  /*@ no_leak_when_constructor_raises */

void fv_ctor_iter_fv(struct fixed_vector *self, size_t capacity, const struct fixed_vector *array)
__CPROVER_requires(nitro_exc == 0 && __CPROVER_is_fresh(self, sizeof(*self)) && capacity <= FV_MAXCAP)
__CPROVER_requires(__CPROVER_is_fresh(array, sizeof(*array)) && FV_PRE_LIVE(array))
__CPROVER_requires(FV_REC(fv_ctor_iter_fv, array->size_, capacity, array->capacity_, array->size_))
__CPROVER_assigns(*self, g_live_arrays, nitro_exc)
__CPROVER_ensures((array->size_ > capacity) ==> nitro_exc != 0)                           /*@ range_that_does_not_fit_raises */
__CPROVER_ensures(nitro_exc == EXC_NITRO ==> array->size_ > capacity)
__CPROVER_ensures(nitro_exc == 0 || nitro_exc == EXC_NITRO || nitro_exc == EXC_ELEM)
__CPROVER_ensures(nitro_exc == 0 ==> (self->size_ == array->size_ && self->capacity_ == capacity))
__CPROVER_ensures(nitro_exc == 0 ==> __CPROVER_is_fresh(self->data_, capacity * sizeof(elem)))  /*@ storage_distinct_from_source */
__CPROVER_ensures((nitro_exc == 0 && g_w < array->size_) ==> self->data_[g_w] == array->data_[g_w]) /*@ elements_in_order */
__CPROVER_ensures(g_live_arrays == __CPROVER_old(g_live_arrays) + (nitro_exc == 0 ? 1 : 0));  /*@ no_leak_when_constructor_raises */

void fv_ctor_ilist(struct fixed_vector *self, const struct nitro_ilist *list)
__CPROVER_requires(nitro_exc == 0 && __CPROVER_is_fresh(self, sizeof(*self)))
__CPROVER_requires(__CPROVER_is_fresh(list, sizeof(*list)) && list->n <= FV_MAXCAP && __CPROVER_is_fresh(list->p, (list->n == 0 ? 1 : list->n) * sizeof(elem)))
__CPROVER_requires(FV_REC(fv_ctor_ilist, 0, list->n, 0, list->n))
__CPROVER_assigns(*self, g_live_arrays, nitro_exc)
__CPROVER_ensures(nitro_exc == 0 || nitro_exc == EXC_ELEM)                                /*@ list_always_fits */
__CPROVER_ensures(nitro_exc == 0 ==> (self->size_ == list->n && self->capacity_ == list->n))
__CPROVER_ensures(nitro_exc == 0 ==> __CPROVER_is_fresh(self->data_, list->n * sizeof(elem)))
__CPROVER_ensures((nitro_exc == 0 && g_w < list->n) ==> self->data_[g_w] == list->p[g_w]) /*@ elements_in_order */
__CPROVER_ensures(g_live_arrays == __CPROVER_old(g_live_arrays) + (nitro_exc == 0 ? 1 : 0));  /*@ no_leak_when_constructor_raises */

/* C07: copy construction yields an equal, independent container */
void fv_ctor_copy(struct fixed_vector *self, const struct fixed_vector *v)
__CPROVER_requires(nitro_exc == 0 && __CPROVER_is_fresh(self, sizeof(*self)))
__CPROVER_requires(__CPROVER_is_fresh(v, sizeof(*v)) && FV_PRE_LIVE(v))
__CPROVER_requires(FV_REC(fv_ctor_copy, v->size_, v->capacity_, 0, 0))
__CPROVER_assigns(*self, g_live_arrays, nitro_exc)
__CPROVER_ensures(nitro_exc == 0 || nitro_exc == EXC_ELEM)                                /*@ copy_never_overflows */
__CPROVER_ensures(nitro_exc == 0 ==> (self->size_ == v->size_ && self->capacity_ == v->capacity_)) /*@ equal_size_and_capacity */
__CPROVER_ensures(nitro_exc == 0 ==> __CPROVER_is_fresh(self->data_, self->capacity_ * sizeof(elem))) /*@ independent_storage */
__CPROVER_ensures((nitro_exc == 0 && g_w < v->size_) ==> self->data_[g_w] == v->data_[g_w])  /*@ equal_elements */
__CPROVER_ensures(g_live_arrays == __CPROVER_old(g_live_arrays) + (nitro_exc == 0 ? 1 : 0));  /*@ no_leak_when_constructor_raises */

/* C07: move construction transfers the whole sequence; C06: the source stays well formed */
void fv_ctor_move(struct fixed_vector *self, struct fixed_vector *v)
__CPROVER_requires(nitro_exc == 0 && __CPROVER_is_fresh(self, sizeof(*self)))
__CPROVER_requires(__CPROVER_is_fresh(v, sizeof(*v)) && FV_PRE_ANY(v))
__CPROVER_requires(FV_REC(fv_ctor_move, v->size_, v->capacity_, 0, 0))
__CPROVER_assigns(*self, *v)
__CPROVER_ensures(nitro_exc == 0)
__CPROVER_ensures(self->size_ == __CPROVER_old(v->size_) && self->capacity_ == __CPROVER_old(v->capacity_)) /*@ size_transferred */
__CPROVER_ensures(__CPROVER_pointer_equals(self->data_, __CPROVER_old(v->data_)))                                  /*@ storage_transferred */
__CPROVER_ensures(v->data_ == 0 && v->size_ == 0 && v->capacity_ <= FV_MAXCAP)             /*@ source_wf */
__CPROVER_ensures(g_live_arrays == __CPROVER_old(g_live_arrays));

struct fixed_vector *fv_assign_move(struct fixed_vector *self, struct fixed_vector *v)
__CPROVER_requires(nitro_exc == 0 && __CPROVER_is_fresh(self, sizeof(*self)) && FV_PRE_ANY(self))
__CPROVER_requires(__CPROVER_is_fresh(v, sizeof(*v)) && FV_PRE_ANY(v))
__CPROVER_requires(FV_REC(fv_assign_move, v->size_, v->capacity_, self->size_, self->capacity_))
__CPROVER_assigns(*self, *v, g_live_arrays; self->data_ != 0: __CPROVER_object_whole(self->data_))
__CPROVER_frees(self->data_)
__CPROVER_ensures(nitro_exc == 0 && __CPROVER_return_value == self)
__CPROVER_ensures(self->size_ == __CPROVER_old(v->size_) && self->capacity_ == __CPROVER_old(v->capacity_)) /*@ target_view */
__CPROVER_ensures(__CPROVER_pointer_equals(self->data_, __CPROVER_old(v->data_)))                                  /*@ storage_transferred */
__CPROVER_ensures(v->data_ == 0 && v->size_ == 0 && v->capacity_ <= FV_MAXCAP)             /*@ source_wf */
__CPROVER_ensures(g_live_arrays == __CPROVER_old(g_live_arrays) - (__CPROVER_old(self->data_) != 0 ? 1 : 0)); /*@ old_storage_released_once */

struct fixed_vector *fv_assign_copy(struct fixed_vector *self, const struct fixed_vector *v)
__CPROVER_requires(nitro_exc == 0 && __CPROVER_is_fresh(self, sizeof(*self)) && FV_PRE_ANY(self))
__CPROVER_requires(__CPROVER_is_fresh(v, sizeof(*v)) && FV_PRE_LIVE(v))
__CPROVER_requires(FV_REC(fv_assign_copy, v->size_, v->capacity_, self->size_, self->capacity_))
__CPROVER_assigns(*self, g_live_arrays, nitro_exc; self->data_ != 0: __CPROVER_object_whole(self->data_))
__CPROVER_frees(self->data_)
__CPROVER_ensures(nitro_exc == 0 || nitro_exc == EXC_ELEM)
__CPROVER_ensures(nitro_exc == 0 ==> __CPROVER_return_value == self)
__CPROVER_ensures(nitro_exc == 0 ==> (self->size_ == v->size_ && self->capacity_ == v->capacity_))   /*@ target_view */
__CPROVER_ensures(nitro_exc == 0 ==> (self->data_ != v->data_ && self->data_ != 0))        /*@ independent_storage */
__CPROVER_ensures((nitro_exc == 0 && g_w < v->size_) ==> self->data_[g_w] == v->data_[g_w]) /*@ equal_elements */
__CPROVER_ensures(nitro_exc == 0 ==> g_live_arrays == __CPROVER_old(g_live_arrays) + 1 - (__CPROVER_old(self->data_) != 0 ? 1 : 0)) /*@ old_storage_released_once */
__CPROVER_ensures(nitro_exc != 0 ==> (FV_SAME_HEADER(self) && g_live_arrays == __CPROVER_old(g_live_arrays)));  /*@ failed_assignment_leaves_target */

struct fixed_vector *fv_assign_list(struct fixed_vector *self, const struct nitro_ilist *l)
__CPROVER_requires(nitro_exc == 0 && __CPROVER_is_fresh(self, sizeof(*self)) && FV_PRE_ANY(self))
__CPROVER_requires(__CPROVER_is_fresh(l, sizeof(*l)) && l->n <= FV_MAXCAP && __CPROVER_is_fresh(l->p, (l->n == 0 ? 1 : l->n) * sizeof(elem)))
__CPROVER_requires(FV_REC(fv_assign_list, self->size_, self->capacity_, 0, l->n))
__CPROVER_assigns(*self, g_live_arrays, nitro_exc; self->data_ != 0: __CPROVER_object_whole(self->data_))
__CPROVER_frees(self->data_)
__CPROVER_ensures(nitro_exc == 0 || nitro_exc == EXC_ELEM)
__CPROVER_ensures(nitro_exc == 0 ==> __CPROVER_return_value == self)
__CPROVER_ensures(nitro_exc == 0 ==> (self->size_ == l->n && self->capacity_ == l->n && self->data_ != 0))  /*@ target_view */
__CPROVER_ensures((nitro_exc == 0 && g_w < l->n) ==> self->data_[g_w] == l->p[g_w])        /*@ equal_elements */
__CPROVER_ensures(nitro_exc == 0 ==> g_live_arrays == __CPROVER_old(g_live_arrays) + 1 - (__CPROVER_old(self->data_) != 0 ? 1 : 0))
__CPROVER_ensures(nitro_exc != 0 ==> (FV_SAME_HEADER(self) && g_live_arrays == __CPROVER_old(g_live_arrays)));

/* ======================= observers ======================= */
nbool fv_empty(const struct fixed_vector *self)
__CPROVER_requires(nitro_exc == 0 && __CPROVER_is_fresh(self, sizeof(*self)) && FV_PRE_ANY(self))
__CPROVER_assigns()
__CPROVER_ensures(__CPROVER_return_value == (self->size_ == 0) && nitro_exc == 0);

size_t fv_size(const struct fixed_vector *self)
__CPROVER_requires(nitro_exc == 0 && __CPROVER_is_fresh(self, sizeof(*self)) && FV_PRE_ANY(self))
__CPROVER_assigns()
__CPROVER_ensures(__CPROVER_return_value == self->size_ && nitro_exc == 0);

size_t fv_capacity(const struct fixed_vector *self)
__CPROVER_requires(nitro_exc == 0 && __CPROVER_is_fresh(self, sizeof(*self)) && FV_PRE_ANY(self))
__CPROVER_assigns()
__CPROVER_ensures(__CPROVER_return_value == self->capacity_ && nitro_exc == 0);

/* unchecked access: precondition key < size (the property only requires *checked* access to raise) */
#define FV_UNCHECKED(name, ST, RT, extra, idx)                                                   \
RT *name(ST *self extra)                                                                         \
__CPROVER_requires(nitro_exc == 0 && __CPROVER_is_fresh(self, sizeof(*self)) && FV_PRE_LIVE(self) && (idx) < self->size_) \
__CPROVER_requires(FV_REC(name, self->size_, self->capacity_, idx, 0)) \
__CPROVER_assigns()                                                                              \
__CPROVER_ensures(__CPROVER_return_value == self->data_ + (idx) && nitro_exc == 0)
#define COMMA_KEY , size_t key
FV_UNCHECKED(fv_index, struct fixed_vector, elem, COMMA_KEY, key);
FV_UNCHECKED(fv_index_c, const struct fixed_vector, const elem, COMMA_KEY, key);
FV_UNCHECKED(fv_front, struct fixed_vector, elem, , (size_t)0);
FV_UNCHECKED(fv_front_c, const struct fixed_vector, const elem, , (size_t)0);
FV_UNCHECKED(fv_back, struct fixed_vector, elem, , self->size_ - 1);
FV_UNCHECKED(fv_back_c, const struct fixed_vector, const elem, , self->size_ - 1);

/* C06: checked access at an index not below size raises */
#define FV_AT(name, ST, RT)                                                                      \
RT *name(ST *self, size_t key)                                                                   \
__CPROVER_requires(nitro_exc == 0 && __CPROVER_is_fresh(self, sizeof(*self)) && FV_PRE_ANY(self)) \
__CPROVER_requires(FV_REC(name, self->size_, self->capacity_, key, 0)) \
__CPROVER_assigns(nitro_exc)                                                                     \
__CPROVER_ensures((key >= self->size_) == (nitro_exc != 0))            /*@ raises_iff_key_ge_size */ \
__CPROVER_ensures(nitro_exc == 0 || nitro_exc == EXC_NITRO)                                      \
__CPROVER_ensures(nitro_exc == 0 ==> __CPROVER_return_value == self->data_ + key)  /*@ returns_slot_key */
FV_AT(fv_at, struct fixed_vector, elem);
FV_AT(fv_at_c, const struct fixed_vector, const elem);

elem *fv_std_get(size_t I, struct fixed_vector *c)
__CPROVER_requires(nitro_exc == 0 && __CPROVER_is_fresh(c, sizeof(*c)) && FV_PRE_ANY(c))
__CPROVER_requires(FV_REC(fv_std_get, c->size_, c->capacity_, I, 0))
__CPROVER_assigns(nitro_exc)
__CPROVER_ensures((I >= c->size_) == (nitro_exc != 0))                  /*@ raises_iff_index_ge_size */
__CPROVER_ensures(nitro_exc == 0 || nitro_exc == EXC_NITRO)              /*@ raises_the_library_exception_not_terminate */
__CPROVER_ensures(nitro_exc == 0 ==> __CPROVER_return_value == c->data_ + I);

#define FV_ITER(name, ST, RT, off)                                                               \
RT *name(ST *self)                                                                               \
__CPROVER_requires(nitro_exc == 0 && __CPROVER_is_fresh(self, sizeof(*self)) && FV_PRE_LIVE(self)) \
__CPROVER_requires(FV_REC(name, self->size_, self->capacity_, 0, 0)) \
__CPROVER_assigns()                                                                              \
__CPROVER_ensures(__CPROVER_return_value == self->data_ + (off) && nitro_exc == 0)   /*@ inside_live_range */
FV_ITER(fv_begin, struct fixed_vector, elem, 0);
FV_ITER(fv_begin_c, const struct fixed_vector, const elem, 0);
FV_ITER(fv_cbegin, const struct fixed_vector, const elem, 0);
FV_ITER(fv_end, struct fixed_vector, elem, self->size_);
FV_ITER(fv_end_c, const struct fixed_vector, const elem, self->size_);
FV_ITER(fv_cend, const struct fixed_vector, const elem, self->size_);
FV_ITER(fv_data, struct fixed_vector, elem, 0);
FV_ITER(fv_data_c, const struct fixed_vector, const elem, 0);

/* C07: reverse iteration starts behind the last live element and stops at the first */
#define FV_RITER(name, ST, off)                                                                  \
struct nitro_rev name(ST *self)                                                                  \
__CPROVER_requires(nitro_exc == 0 && __CPROVER_is_fresh(self, sizeof(*self)) && FV_PRE_LIVE(self)) \
__CPROVER_requires(FV_REC(name, self->size_, self->capacity_, 0, 0)) \
__CPROVER_assigns()                                                                              \
__CPROVER_ensures(__CPROVER_return_value.base == self->data_ + (off) && nitro_exc == 0)  /*@ reverse_range_bounds */
FV_RITER(fv_rbegin, struct fixed_vector, self->size_);
FV_RITER(fv_rbegin_c, const struct fixed_vector, self->size_);
FV_RITER(fv_crbegin, const struct fixed_vector, self->size_);
FV_RITER(fv_rend, struct fixed_vector, 0);
FV_RITER(fv_rend_c, const struct fixed_vector, 0);
FV_RITER(fv_crend, const struct fixed_vector, 0);

/* ======================= modifiers ======================= */
void fv_replace_move(struct fixed_vector *self, elem *a, elem b)
__CPROVER_requires(nitro_exc == 0 && __CPROVER_is_fresh(a, sizeof(elem)))
__CPROVER_assigns(*a, nitro_exc)
__CPROVER_ensures(nitro_exc == 0 || nitro_exc == EXC_ELEM)
__CPROVER_ensures(nitro_exc == 0 ==> *a == b);

void fv_replace_copy(struct fixed_vector *self, elem *a, elem b)
__CPROVER_requires(nitro_exc == 0 && __CPROVER_is_fresh(a, sizeof(elem)))
__CPROVER_assigns(*a, nitro_exc)
__CPROVER_ensures(nitro_exc == 0 || nitro_exc == EXC_ELEM)
__CPROVER_ensures(nitro_exc == 0 ==> *a == b);

/* C06/C07: the four single-element appends */
#define FV_APPEND(name, argname)                                                                 \
size_t name(struct fixed_vector *self, elem argname)                                             \
__CPROVER_requires(nitro_exc == 0 && __CPROVER_is_fresh(self, sizeof(*self)) && FV_PRE_STORE(self)) \
__CPROVER_requires(FV_REC(name, self->size_, self->capacity_, 0, 0)) \
__CPROVER_assigns(nitro_exc, self->size_, __CPROVER_object_whole(self->data_))                   \
__CPROVER_ensures((__CPROVER_old(self->size_) >= self->capacity_) == (nitro_exc == EXC_NITRO))  /*@ append_when_full_raises */ \
__CPROVER_ensures(nitro_exc == 0 || nitro_exc == EXC_NITRO || nitro_exc == EXC_ELEM)             \
__CPROVER_ensures(nitro_exc != 0 ==> self->size_ == __CPROVER_old(self->size_))  /*@ failed_append_leaves_size */ \
__CPROVER_ensures(FV_LIVE_UNCHANGED(self))                               /*@ live_elements_unchanged */ \
__CPROVER_ensures(nitro_exc == 0 ==> self->size_ == __CPROVER_old(self->size_) + 1)  /*@ size_grows_by_one */ \
__CPROVER_ensures(nitro_exc == 0 ==> self->data_[__CPROVER_old(self->size_)] == argname)  /*@ appended_at_end */ \
__CPROVER_ensures(nitro_exc == 0 ==> __CPROVER_return_value == __CPROVER_old(self->size_))  /*@ returns_index */ \
__CPROVER_ensures(self->capacity_ == __CPROVER_old(self->capacity_) && self->data_ == __CPROVER_old(self->data_))
FV_APPEND(fv_emplace_back, args);
FV_APPEND(fv_insert_cref, value);
FV_APPEND(fv_insert_rref, value);
FV_APPEND(fv_push_back, value);

/* C07: positional emplace inserts before the position */
void fv_emplace(struct fixed_vector *self, elem *pos, elem args)
__CPROVER_requires(nitro_exc == 0 && __CPROVER_is_fresh(self, sizeof(*self)) && FV_PRE_STORE(self) && FV_POS(fv_emplace, self, pos))
__CPROVER_requires(FV_REC(fv_emplace, self->size_, self->capacity_, FV_K(self, pos), 0))
__CPROVER_assigns(nitro_exc, self->size_, __CPROVER_object_whole(self->data_))
__CPROVER_ensures((FV_K(self, pos) > __CPROVER_old(self->size_) || __CPROVER_old(self->size_) >= self->capacity_) == (nitro_exc == EXC_NITRO)) /*@ raises_iff_bad_position_or_full */
__CPROVER_ensures(nitro_exc == 0 || nitro_exc == EXC_NITRO || nitro_exc == EXC_ELEM)
__CPROVER_ensures(nitro_exc == EXC_NITRO ==> (self->size_ == __CPROVER_old(self->size_) && FV_LIVE_UNCHANGED(self))) /*@ failed_emplace_leaves_container */
__CPROVER_ensures(nitro_exc == EXC_ELEM ==> self->size_ == __CPROVER_old(self->size_))
__CPROVER_ensures(nitro_exc == 0 ==> self->size_ == __CPROVER_old(self->size_) + 1)
__CPROVER_ensures((nitro_exc == 0 && g_w < FV_K(self, pos)) ==> self->data_[g_w] == __CPROVER_old(FV_ELT(self, g_w)))          /*@ prefix_unchanged */
__CPROVER_ensures(nitro_exc == 0 ==> self->data_[FV_K(self, pos)] == args)                                                    /*@ inserted_before_pos */
__CPROVER_ensures((nitro_exc == 0 && g_w >= FV_K(self, pos) && g_w < __CPROVER_old(self->size_)) ==> self->data_[g_w + 1] == __CPROVER_old(FV_ELT(self, g_w))) /*@ tail_shifted_up */
__CPROVER_ensures(self->capacity_ == __CPROVER_old(self->capacity_) && self->data_ == __CPROVER_old(self->data_));

/* C06: range insert overwrites from pos and appends; raises when it does not fit */
void fv_insert_range(struct fixed_vector *self, elem *pos, const elem *start, const elem *end)
__CPROVER_requires(nitro_exc == 0 && __CPROVER_is_fresh(self, sizeof(*self)) && FV_PRE_STORE(self) && FV_POS(fv_insert_range, self, pos))
__CPROVER_requires(FV_RANGE_PRE(fv_insert_range, start, end))
__CPROVER_requires(FV_REC(fv_insert_range, self->size_, self->capacity_, FV_K(self, pos), FV_N(start, end)))
__CPROVER_assigns(nitro_exc, self->size_, __CPROVER_object_whole(self->data_))
__CPROVER_ensures((FV_K(self, pos) > __CPROVER_old(self->size_) || (FV_K(self, pos) <= __CPROVER_old(self->size_) && FV_N(start, end) > self->capacity_ - FV_K(self, pos))) ==> nitro_exc != 0) /*@ range_that_does_not_fit_raises */
__CPROVER_ensures(nitro_exc == EXC_NITRO ==> (FV_K(self, pos) > __CPROVER_old(self->size_) || FV_N(start, end) > self->capacity_ - FV_K(self, pos)))
__CPROVER_ensures(nitro_exc == 0 || nitro_exc == EXC_NITRO || nitro_exc == EXC_ELEM)
__CPROVER_ensures(self->size_ <= self->capacity_ && self->size_ >= __CPROVER_old(self->size_))                      /*@ size_within_capacity */
__CPROVER_ensures(nitro_exc == 0 ==> self->size_ == (FV_K(self, pos) + FV_N(start, end) > __CPROVER_old(self->size_) ? FV_K(self, pos) + FV_N(start, end) : __CPROVER_old(self->size_))) /*@ size_after_range */
__CPROVER_ensures((nitro_exc == 0 && g_w < FV_N(start, end)) ==> self->data_[FV_K(self, pos) + g_w] == start[g_w])                          /*@ range_stored_in_order */
__CPROVER_ensures((g_w < FV_K(self, pos) && g_w < __CPROVER_old(self->size_)) ==> self->data_[g_w] == __CPROVER_old(FV_ELT(self, g_w)))  /*@ prefix_unchanged */
__CPROVER_ensures((nitro_exc == 0 && g_w >= FV_K(self, pos) + FV_N(start, end) && g_w < __CPROVER_old(self->size_)) ==> self->data_[g_w] == __CPROVER_old(FV_ELT(self, g_w)))
__CPROVER_ensures(self->capacity_ == __CPROVER_old(self->capacity_) && self->data_ == __CPROVER_old(self->data_));

#define NITRO_LOOP_fv_insert_range_1 \
  __CPROVER_assigns(key, start, nitro_exc, self->size_, __CPROVER_object_whole(self->data_)) \
  __CPROVER_loop_invariant(nitro_exc == 0 && self->size_ <= self->capacity_ && self->capacity_ <= FV_MAXCAP) \
  __CPROVER_loop_invariant(FV_K(self, pos) <= key && key <= self->capacity_ && key - FV_K(self, pos) <= FV_N(__CPROVER_loop_entry(start), end)) \
  __CPROVER_loop_invariant(start == __CPROVER_loop_entry(start) + (key - FV_K(self, pos))) \
  __CPROVER_loop_invariant(self->size_ == (key > __CPROVER_loop_entry(self->size_) ? key : __CPROVER_loop_entry(self->size_))) \
  __CPROVER_loop_invariant((g_w < key - FV_K(self, pos)) ==> self->data_[FV_K(self, pos) + g_w] == __CPROVER_loop_entry(start)[g_w]) \
  __CPROVER_loop_invariant((g_w < __CPROVER_loop_entry(self->size_) && (g_w < FV_K(self, pos) || g_w >= key)) ==> self->data_[g_w] == __CPROVER_loop_entry(FV_ELT(self, g_w))) \
  __CPROVER_decreases(FV_N(start, end))

void fv_insert_ilist(struct fixed_vector *self, elem *pos, const struct nitro_ilist *list)
__CPROVER_requires(nitro_exc == 0 && __CPROVER_is_fresh(self, sizeof(*self)) && FV_PRE_STORE(self) && FV_POS(fv_insert_ilist, self, pos))
__CPROVER_requires(__CPROVER_is_fresh(list, sizeof(*list)) && list->n <= FV_MAXCAP && __CPROVER_is_fresh(list->p, (list->n == 0 ? 1 : list->n) * sizeof(elem)))
__CPROVER_requires(FV_REC(fv_insert_ilist, self->size_, self->capacity_, FV_K(self, pos), list->n))
__CPROVER_assigns(nitro_exc, self->size_, __CPROVER_object_whole(self->data_))
__CPROVER_ensures((FV_K(self, pos) > __CPROVER_old(self->size_) || (FV_K(self, pos) <= __CPROVER_old(self->size_) && list->n > self->capacity_ - FV_K(self, pos))) ==> nitro_exc != 0) /*@ range_that_does_not_fit_raises */
__CPROVER_ensures(self->size_ <= self->capacity_)
__CPROVER_ensures((nitro_exc == 0 && g_w < list->n) ==> self->data_[FV_K(self, pos) + g_w] == list->p[g_w])
__CPROVER_ensures(self->capacity_ == __CPROVER_old(self->capacity_) && self->data_ == __CPROVER_old(self->data_));

void fv_push_back_range(struct fixed_vector *self, const elem *start, const elem *end)
__CPROVER_requires(nitro_exc == 0 && __CPROVER_is_fresh(self, sizeof(*self)) && FV_PRE_LIVE(self))
__CPROVER_requires(FV_RANGE_PRE(fv_push_back_range, start, end))
__CPROVER_requires(FV_REC(fv_push_back_range, self->size_, self->capacity_, self->size_, FV_N(start, end)))
__CPROVER_assigns(nitro_exc, self->size_, __CPROVER_object_whole(self->data_))
__CPROVER_ensures((FV_N(start, end) > self->capacity_ - __CPROVER_old(self->size_)) ==> nitro_exc != 0)   /*@ range_that_does_not_fit_raises */
__CPROVER_ensures(nitro_exc == EXC_NITRO ==> FV_N(start, end) > self->capacity_ - __CPROVER_old(self->size_))
__CPROVER_ensures(self->size_ <= self->capacity_)
__CPROVER_ensures(nitro_exc == 0 ==> self->size_ == __CPROVER_old(self->size_) + FV_N(start, end))
__CPROVER_ensures((nitro_exc == 0 && g_w < FV_N(start, end)) ==> self->data_[__CPROVER_old(self->size_) + g_w] == start[g_w])   /*@ appended_in_order */
__CPROVER_ensures(FV_LIVE_UNCHANGED(self))
__CPROVER_ensures(self->capacity_ == __CPROVER_old(self->capacity_) && self->data_ == __CPROVER_old(self->data_));

/* C06: pop when empty raises; C07: pop removes the last */
void fv_pop_back(struct fixed_vector *self)
__CPROVER_requires(nitro_exc == 0 && __CPROVER_is_fresh(self, sizeof(*self)) && FV_PRE_ANY(self))
__CPROVER_requires(FV_REC(fv_pop_back, self->size_, self->capacity_, 0, 0))
__CPROVER_assigns(nitro_exc, self->size_)
__CPROVER_ensures((__CPROVER_old(self->size_) == 0) == (nitro_exc != 0))                   /*@ pop_when_empty_raises */
__CPROVER_ensures(nitro_exc == 0 || nitro_exc == EXC_NITRO)
__CPROVER_ensures(nitro_exc != 0 ==> self->size_ == __CPROVER_old(self->size_))
__CPROVER_ensures(nitro_exc == 0 ==> self->size_ == __CPROVER_old(self->size_) - 1);       /*@ drops_the_last */

/* C06: erase at an index not below size raises; C07: erase removes one element, keeps the order of the rest */
void fv_erase(struct fixed_vector *self, elem *pos)
__CPROVER_requires(nitro_exc == 0 && __CPROVER_is_fresh(self, sizeof(*self)) && FV_PRE_LIVE(self) && FV_POS(fv_erase, self, pos))
__CPROVER_requires(FV_REC(fv_erase, self->size_, self->capacity_, FV_K(self, pos), 0))
__CPROVER_assigns(nitro_exc, self->size_, __CPROVER_object_whole(self->data_))
__CPROVER_ensures((FV_K(self, pos) >= __CPROVER_old(self->size_)) == (nitro_exc == EXC_NITRO))         /*@ erase_at_index_not_below_size_raises */
__CPROVER_ensures(nitro_exc == 0 || nitro_exc == EXC_NITRO || nitro_exc == EXC_ELEM)
__CPROVER_ensures(nitro_exc == EXC_NITRO ==> (self->size_ == __CPROVER_old(self->size_) && FV_LIVE_UNCHANGED(self)))  /*@ failed_erase_leaves_container */
__CPROVER_ensures(nitro_exc == EXC_ELEM ==> self->size_ == __CPROVER_old(self->size_))
__CPROVER_ensures(nitro_exc == 0 ==> self->size_ == __CPROVER_old(self->size_) - 1)        /*@ removes_one */
__CPROVER_ensures((nitro_exc == 0 && g_w < FV_K(self, pos)) ==> self->data_[g_w] == __CPROVER_old(FV_ELT(self, g_w)))          /*@ prefix_unchanged */
__CPROVER_ensures((nitro_exc == 0 && g_w >= FV_K(self, pos) && g_w < self->size_) ==> self->data_[g_w] == __CPROVER_old(FV_ELT(self, g_w + 1))) /*@ tail_shifted_down */
__CPROVER_ensures(self->capacity_ == __CPROVER_old(self->capacity_) && self->data_ == __CPROVER_old(self->data_));

#define NITRO_LOOP_fv_erase_1 \
  __CPROVER_assigns(key, nitro_exc, __CPROVER_object_whole(self->data_)) \
  __CPROVER_loop_invariant(nitro_exc == 0 && FV_K(self, pos) <= key && key < self->size_ && self->size_ <= self->capacity_) \
  __CPROVER_loop_invariant((g_w < FV_K(self, pos)) ==> self->data_[g_w] == __CPROVER_loop_entry(FV_ELT(self, g_w))) \
  __CPROVER_loop_invariant((g_w >= FV_K(self, pos) && g_w < key) ==> self->data_[g_w] == __CPROVER_loop_entry(FV_ELT(self, g_w + 1))) \
  __CPROVER_loop_invariant((g_w >= key && g_w < self->size_) ==> self->data_[g_w] == __CPROVER_loop_entry(FV_ELT(self, g_w))) \
  __CPROVER_loop_invariant((g_w + 1 >= key && g_w + 1 < self->size_ && g_w < self->size_) ==> self->data_[g_w + 1] == __CPROVER_loop_entry(FV_ELT(self, g_w + 1))) \
  __CPROVER_decreases(self->size_ - key)

#define NITRO_LOOP_fv_emplace_1 \
  __CPROVER_assigns(i, nitro_exc, __CPROVER_object_whole(self->data_)) \
  __CPROVER_loop_invariant(nitro_exc == 0 && FV_K(self, pos) <= i && i <= self->size_ && self->size_ < self->capacity_) \
  __CPROVER_loop_invariant((g_w < i) ==> self->data_[g_w] == __CPROVER_loop_entry(FV_ELT(self, g_w))) \
  __CPROVER_loop_invariant((g_w >= i && g_w < self->size_) ==> self->data_[g_w + 1] == __CPROVER_loop_entry(FV_ELT(self, g_w))) \
  __CPROVER_decreases(i)

#endif
