"""hash unit: nitro::lang::hash family (hash.hpp) and tuple_operators (tuple_operators.hpp) (C16).
Binding: a tuple/variant is an array of element hashes h[0..n) (n <= 8) obtained from the element-hash stub;
template recursion over I becomes recursion over a run-time index, the two overloads being the two branches."""
import re
from vf.extract import Rule, CallRule, ExtractionError
from vf.unit import Unit, F, Lemma

H = "include/nitro/lang/hash.hpp"
TO = "include/nitro/lang/tuple_operators.hpp"
P = ["C16"]
OPS = {"!=": "OP_NE", "==": "OP_EQ", "<": "OP_LT", ">": "OP_GT", "<=": "OP_LE", ">=": "OP_GE"}


def build(src):
    u = Unit("hash", src)
    u.rules = [Rule("D2.auto", r"\bauto\b", "__auto_type")]
    # the type of the by-value parameter is read from the source: a narrower integer type than the hash type truncates every
    # component hash at the call (implicit conversion), which the C text renders as an explicit conversion on entry
    m = re.search(r"inline void hash_combine_impl\(HashT& seed, (?:const\s+)?([\w:]+(?:\s+[\w:]+)*?)\s*(?:const\s*)?&?\s*value\)", src.text(H))
    if not m:
        raise ExtractionError("hash_combine_impl(HashT& seed, <type> value) not found")
    vty = re.sub(r"\bstd::", "", " ".join(m.group(1).split()))
    narrow = {"HashT": None, "size_t": None, "unsigned long": None, "uint64_t": None, "unsigned long long": None,
              "unsigned": "unsigned", "unsigned int": "unsigned", "uint32_t": "unsigned", "int": "int", "int32_t": "int", "long": "long", "int64_t": "long",
              "uint16_t": "unsigned short", "unsigned short": "unsigned short", "uint8_t": "unsigned char", "unsigned char": "unsigned char"}
    if vty not in narrow:
        raise ExtractionError("hash_combine_impl: parameter type %r of `value` has no C rendering" % vty)

    class ValueConv:
        name = "D3.param-conversion"

        def apply(self, text):
            if narrow[vty] is None:
                return text, 1
            return "\n    value = (size_t)(%s)value;   /* implicit conversion to the declared parameter type `%s` */%s" % (narrow[vty], vty, text), 1
    u.add(F("hc_impl", H, re.escape(m.group(0)), "void hc_impl(size_t *seed, size_t value)", P, pre=[ValueConv()],
            rules=[Rule("D3.refparam.seed", r"(?<![\w.>&])seed\b", "(*seed)")]))
    # tuple recursion
    base = src.find(H, r"hash_combine_tuple\(std::size_t&, T const&\)")
    rec = src.find(H, r"hash_combine_tuple\(std::size_t& seed, const T& v\)")
    hb, hr = " ".join(src.text(H)[:0].split()), None
    t = src.text(H)
    if not re.search(r"enable_if<\(I == std::tuple_size<T>::value\), void>::type\s*hash_combine_tuple\(std::size_t&, T const&\)", t) or \
       not re.search(r"enable_if<\(I < std::tuple_size<T>::value\), void>::type\s*hash_combine_tuple\(std::size_t& seed, const T& v\)", t):
        raise ExtractionError("hash_combine_tuple: the enable_if conditions (I == size / I < size) changed")

    class TupleBody:
        name = "D1.index-recursion"

        def apply(self, text):
            r = rec["body"]
            r, n1 = re.subn(r"hash_combine_impl\(seed,\s*hash\(std::get<I>\(v\)\)\);", "hc_impl(seed, nitro_hash_elem(v, I));", r)
            r, n2 = re.subn(r"hash_combine_tuple<([^>]*)>\(seed,\s*v\);", r"hc_tuple(seed, v, \1);", r)
            if n1 != 1 or n2 != 1:
                raise ExtractionError("hash_combine_tuple<I> no longer combines get<I> and recurses once")
            return "\n    if (I == v->n)\n    {%s}\n    else\n    {%s}\n" % (base["body"], r), 1
    u.add(F("hc_tuple", H, r"hash_combine_tuple\(std::size_t&, T const&\)", "void hc_tuple(size_t *seed, const struct ntuple *v, size_t I)", P, rec=True, pre=[TupleBody()],
            harness="""void h_hc_tuple(void)
{
    size_t *seed = malloc(sizeof(size_t)); struct ntuple *v = malloc(sizeof(*v)); size_t I;
    __CPROVER_assume(seed != 0 && v != 0);
    NITRO_HAVOC;
    hc_tuple(seed, v, I);
    NITRO_CANARIES;
}
"""))
    u.add(F("hash_tuple", H, r"inline auto hash\(const std::tuple<T\.\.\.>& t\)", "size_t hash_tuple(const struct ntuple *t)", P, dflt="0",
            rules=[Rule("D7.size_t", r"std::size_t", "size_t"),
                   Rule("D1.instantiate", r"detail::hash_combine_tuple<0>\(seed,\s*t\);", "hc_tuple(&seed, t, 0);")], must_fire=["D1.instantiate"]))
    u.add(F("hash_pair", H, r"inline auto hash\(const std::pair<T, U>& t\)", "size_t hash_pair(const struct ntuple *t)", P, dflt="0",
            rules=[Rule("D7.size_t", r"std::size_t", "size_t"),
                   Rule("D6.pair-first", r"\bhash\(t\.first\)", "nitro_hash_member(t, 0)"),
                   Rule("D6.pair-second", r"\bhash\(t\.second\)", "nitro_hash_member(t, 1)"),
                   Rule("D1.combine", r"detail::hash_combine_impl\(seed,", "hc_impl(&seed,")],
            must_fire=["D6.pair-first", "D6.pair-second", "D1.combine"]))
    # variant recursion (by index)
    vbase = src.find(H, r"hash_combine_variant\(std::size_t&, const T&\)")
    vrec = src.find(H, r"hash_combine_variant\(std::size_t& seed, const T& v\)")

    class VariantBody:
        name = "D1.index-recursion"

        def apply(self, text):
            r = vrec["body"]
            r, n0 = re.subn(r"if \(__auto_type x = std::get_if<I>\(&v\)\)|if \(auto x = std::get_if<I>\(&v\)\)", "const size_t *x = nitro_get_if(v, I);\n            if (x)", r)
            r, n1 = re.subn(r"hash_combine_impl\(seed,\s*hash\(\*x\)\);", "hc_impl(seed, *x);", r)
            r, n2 = re.subn(r"hash_combine_variant<([^>]*)>\(seed,\s*v\);", r"hc_variant(seed, v, \1);", r)
            if n0 != 1 or n1 != 1 or n2 != 1:
                raise ExtractionError("hash_combine_variant<I> changed shape")
            return "\n    if (I == v->n)\n    {%s}\n    else\n    {%s}\n" % (vbase["body"], r), 1
    u.add(F("hc_variant", H, r"hash_combine_variant\(std::size_t&, const T&\)", "void hc_variant(size_t *seed, const struct nvariant *v, size_t I)", P, rec=True, pre=[VariantBody()],
            harness="""void h_hc_variant(void)
{
    size_t *seed = malloc(sizeof(size_t)); struct nvariant *v = malloc(sizeof(*v)); size_t I;
    __CPROVER_assume(seed != 0 && v != 0);
    NITRO_HAVOC;
    hc_variant(seed, v, I);
    NITRO_CANARIES;
}
"""))
    u.add(F("hash_variant", H, r"inline auto hash\(const std::variant<T\.\.\.>& t\)", "size_t hash_variant(const struct nvariant *t)", P, dflt="0",
            rules=[Rule("D7.size_t", r"std::size_t", "size_t"),
                   Rule("D1.instantiate", r"detail::hash_combine_variant<0>\(seed,\s*t\);", "hc_variant(&seed, t, 0);")], must_fire=["D1.instantiate"]))
    for nm, sig in [("hash_unique_ptr", r"inline auto hash\(const std::unique_ptr<T>& p\)"), ("hash_shared_ptr", r"inline auto hash\(const std::shared_ptr<T>& p\)")]:
        u.add(F(nm, H, sig, "size_t %s(const struct hval *const *p)" % nm, P, dflt="0", nth=0,
                rules=[Rule("D6.pointee", r"return\s+hash\(\*p\);", "return hash_std(*p);")], must_fire=["D6.pointee"]))
    u.add(F("hash_std", H, r"enable_if<meta::std_hashable<T>::value, std::size_t>::type\s*hash\(const T& t\)", "size_t hash_std(const struct hval *t)", P, dflt="0",
            pre=[Rule("D1.if-constexpr", r"\bif constexpr\b", "if"),
                 Rule("D1.type-trait", r"std::is_floating_point<T>::value", "g_T_is_floating_point"),
                 Rule("D1.type-trait", r"sizeof\(T\)\s*<=\s*sizeof\(std::size_t\)", "g_T_fits_in_size_t"),
                 Rule("D7.memcpy-object-bits", r"std::memcpy\(&(\w+),\s*&t,\s*sizeof\(T\)\);", r"\1 = nitro_object_bits(t);"),
                 Rule("D7.size_t", r"std::size_t", "size_t"),
                 Rule("D7.std-hash", r"std::hash<T>\(\)\(t\)", "nitro_std_hash(t)")],
            must_fire=["D7.std-hash"]))
    u.add(F("hash_hashable", H, r"enable_if<std::is_base_of<hashable, T>::value, std::size_t>::type\s*hash\(const T& t\)", "size_t hash_hashable(const struct ntuple *t)", P, dflt="0",
            rules=[Rule("D6.member-hash", r"return\s+t\.hash\(\);", "return to_hash(t);")], must_fire=["D6.member-hash"]))
    u.add(F("hash_wrapper_call", H, r"auto operator\(\)\(const T& t\) const", "size_t hash_wrapper_call(const struct ntuple *t)", P, dflt="0",
            rules=[Rule("D6.hash-call", r"return\s+hash\(t\);", "return hash_hashable(t);")], must_fire=["D6.hash-call"]))
    # tuple_operators
    for op, code in OPS.items():
        nm = "to_" + code.lower()
        u.add(F(nm, TO, r"inline friend bool operator%s\(const T& x, const T& y\)" % re.escape(op), "nbool %s(const struct ntuple *x, const struct ntuple *y)" % nm, P, dflt="0",
                rules=[Rule("D6.tuple-compare", r"return\s+as_tuple\(x\)\s*(!=|==|<=|>=|<|>)\s*as_tuple\(y\);",
                            lambda mm: "return nitro_tuple_cmp(%s, to_as_tuple_c(x), to_as_tuple_c(y));" % OPS[mm.group(1)])],
                must_fire=["D6.tuple-compare"]))
    u.add(F("to_hash", TO, r"inline auto hash\(\) const", "size_t to_hash(const struct ntuple *self)", P, dflt="0",
            rules=[Rule("D6.member-tuple-hash", r"return\s+nitro::lang::hash\(as_tuple\(static_cast<const T&>\(\*this\)\)\);", "return hash_tuple(to_as_tuple_c(self));")],
            must_fire=["D6.member-tuple-hash"]))
    u.add(F("to_as_tuple", TO, r"inline auto as_tuple\(T& t\)", "const struct ntuple *to_as_tuple(const struct ntuple *t)", P, dflt="0",
            rules=[Rule("D6.member-as_tuple", r"return\s+t\.as_tuple\(\);", "return nitro_member_as_tuple(t);")], must_fire=["D6.member-as_tuple"]))
    u.add(F("to_as_tuple_c", TO, r"inline auto as_tuple\(const T& t\)", "const struct ntuple *to_as_tuple_c(const struct ntuple *t)", P, dflt="0",
            rules=[Rule("D6.member-as_tuple", r"return\s+helper::constify\(const_cast<T&>\(t\)\.as_tuple\(\)\);", "return nitro_member_as_tuple(t);")], must_fire=["D6.member-as_tuple"]))
    u.stubs = ["nitro_hash_elem", "nitro_std_hash", "nitro_tuple_cmp"]
    u.trusted = [
        "extraction rules D1-D7: tuples/variants := arrays of element hashes (arity <= 8), template recursion over I := recursion over a run-time index",
        "std::hash<T> is a function of the value's equality class (equal values hash equal) (nitro_std_hash, assumed)",
        "std::tuple's comparison operators are the lexicographic comparisons of the member tuples (nitro_tuple_cmp, assumed: uninterpreted per operator)",
        "std::get_if<I>(&v) is non-null exactly for the active alternative",
        "'changing a component changes the hash up to rare collisions' is statistical and not decided; per-step injectivity and order sensitivity are",
    ]
    u.lemmas = [Lemma("lemma_hc_injective", P, replace=[], note="for a fixed seed the combiner is injective in the value: a changed component changes the running hash"),
                Lemma("lemma_hc_order_sensitive", P, replace=[], note="MUSTFAIL obligations: the combiner is not symmetric / does not map (a,a) to a constant")]
    return u
