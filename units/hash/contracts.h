/* Contracts for nitro::lang::hash and tuple_operators (C16). */
#ifndef HASH_CONTRACTS_H
#define HASH_CONTRACTS_H
#include "nitro_rt.h"
#include "kf_gen.h"
#include "enf_gen.h"

#define HT_MAX 8
struct ntuple { size_t n; size_t h[HT_MAX]; size_t member_tuple_id; };   /* a tuple-like value: arity and the hash of each component */
struct nvariant { size_t n; size_t index; size_t h[HT_MAX]; };          /* active alternative `index` */
struct hval { size_t eqclass; size_t repr; };                          /* a std::hash-able value: equality class and object representation */
enum { OP_NE = 1, OP_EQ, OP_LT, OP_GT, OP_LE, OP_GE };

extern size_t g_eh_next;                 /* ghost: index the element-hash stub expects next (components are hashed once each, in order) */
extern size_t g_sh_class, g_sh_ret;      /* std::hash seen at one witness equality class */
extern int g_cmp_op; extern size_t g_cmp_a, g_cmp_b; extern nbool g_cmp_ret;   /* tuple comparison seen at one witness (operator, lhs, rhs) */
extern nbool g_T_is_floating_point, g_T_fits_in_size_t;
#define NITRO_UNIT_GLOBALS size_t g_eh_next, g_sh_class, g_sh_ret; int g_cmp_op; size_t g_cmp_a, g_cmp_b; nbool g_cmp_ret, g_T_is_floating_point, g_T_fits_in_size_t;
nbool nondet_nbool(void); int nondet_int(void);
#define NITRO_HAVOC_UNIT g_eh_next = nondet_size_t(); g_sh_class = nondet_size_t(); g_sh_ret = nondet_size_t(); g_cmp_op = nondet_int(); g_cmp_a = nondet_size_t(); \
   g_cmp_b = nondet_size_t(); g_cmp_ret = nondet_nbool(); g_T_is_floating_point = nondet_nbool(); g_T_fits_in_size_t = nondet_nbool();
#define H_OBJ(p) __CPROVER_is_fresh(p, sizeof(*(p)))
#define H_OBJ_OR_ROK(fn, p) ((NITRO_ENF_##fn && H_OBJ(p)) || (!NITRO_ENF_##fn && __CPROVER_r_ok(p, sizeof(*(p)))))
#define H_OBJ_OR_OK(fn, p) ((NITRO_ENF_##fn && H_OBJ(p)) || (!NITRO_ENF_##fn && __CPROVER_rw_ok(p, sizeof(*(p)))))
/* the combining step, as a mathematical function of (seed, value) */
#define HC(s, v) ((s) ^ ((v) + (size_t)0x9e3779b9 + ((s) << 6) + ((s) >> 2)))

/* ---- stubs ---- */
size_t nitro_hash_elem(const struct ntuple *v, size_t I)     /* hash(std::get<I>(v)) */
__CPROVER_requires(__CPROVER_r_ok(v, sizeof(*v)) && I < v->n && v->n <= HT_MAX)
__CPROVER_requires(I == g_eh_next)                           /*@ components_hashed_once_each_in_increasing_order */
__CPROVER_assigns(g_eh_next)
__CPROVER_ensures(__CPROVER_return_value == v->h[I] && g_eh_next == I + 1);
static inline size_t nitro_hash_member(const struct ntuple *t, size_t i) { return t->h[i]; }      /* hash(t.first) / hash(t.second) */
static inline const size_t *nitro_get_if(const struct nvariant *v, size_t I) { return v->index == I ? &v->h[I] : (const size_t *)0; }
size_t nitro_std_hash(const struct hval *t)
__CPROVER_requires(__CPROVER_r_ok(t, sizeof(*t)))
__CPROVER_assigns()
__CPROVER_ensures(t->eqclass == g_sh_class ==> __CPROVER_return_value == g_sh_ret);              /* equal values hash equal */
static inline size_t nitro_object_bits(const struct hval *t) { return t->repr; }
nbool nitro_tuple_cmp(int op, const struct ntuple *a, const struct ntuple *b)
__CPROVER_requires(__CPROVER_r_ok(a, sizeof(*a)) && __CPROVER_r_ok(b, sizeof(*b)))
__CPROVER_assigns()
__CPROVER_ensures((op == g_cmp_op && a->member_tuple_id == g_cmp_a && b->member_tuple_id == g_cmp_b) ==> __CPROVER_return_value == g_cmp_ret);
static inline const struct ntuple *nitro_member_as_tuple(const struct ntuple *t) { return t; }     /* t.as_tuple(): the tuple of all members */

/* ---- the combiner ---- */
void hc_impl(size_t *seed, size_t value)
__CPROVER_requires(H_OBJ_OR_OK(hc_impl, seed))
__CPROVER_assigns(*seed)
__CPROVER_ensures(*seed == HC(__CPROVER_old(*seed), value));                                      /*@ boost_style_combine_of_seed_and_value */

void hc_tuple(size_t *seed, const struct ntuple *v, size_t I)
__CPROVER_requires(nitro_exc == 0 && __CPROVER_w_ok(seed, sizeof(*seed)) && __CPROVER_r_ok(v, sizeof(*v)) && v->n <= HT_MAX && I <= v->n && g_eh_next == I)
__CPROVER_assigns(*seed, g_eh_next)
__CPROVER_ensures(g_eh_next == v->n)                                                             /*@ every_component_from_I_on_is_combined */
__CPROVER_ensures(I == v->n ==> *seed == __CPROVER_old(*seed))
__CPROVER_ensures(I + 1 == v->n ==> *seed == HC(__CPROVER_old(*seed), v->h[I]))
__CPROVER_ensures(I + 2 == v->n ==> *seed == HC(HC(__CPROVER_old(*seed), v->h[I]), v->h[I + 1])); /*@ left_fold_in_component_order */

size_t hash_tuple(const struct ntuple *t)
__CPROVER_requires(nitro_exc == 0 && H_OBJ_OR_ROK(hash_tuple, t) && t->n <= HT_MAX && g_eh_next == 0)
__CPROVER_assigns(g_eh_next)
__CPROVER_ensures(g_eh_next == t->n)                                                             /*@ depends_on_every_component */
__CPROVER_ensures(t->n == 0 ==> __CPROVER_return_value == 0)
__CPROVER_ensures(t->n == 1 ==> __CPROVER_return_value == HC((size_t)0, t->h[0]))
__CPROVER_ensures(t->n == 2 ==> __CPROVER_return_value == HC(HC((size_t)0, t->h[0]), t->h[1]));   /*@ left_fold_from_seed_0 */

size_t hash_pair(const struct ntuple *t)
__CPROVER_requires(nitro_exc == 0 && H_OBJ(t) && t->n == 2)
__CPROVER_assigns()
__CPROVER_ensures(__CPROVER_return_value == HC(t->h[0], t->h[1]));                                /*@ first_seeds_second_is_combined */

void hc_variant(size_t *seed, const struct nvariant *v, size_t I)
__CPROVER_requires(nitro_exc == 0 && __CPROVER_w_ok(seed, sizeof(*seed)) && __CPROVER_r_ok(v, sizeof(*v)) && v->n <= HT_MAX && I <= v->n && v->index < v->n)
__CPROVER_assigns(*seed)
__CPROVER_ensures(v->index >= I ==> *seed == HC(__CPROVER_old(*seed), v->h[v->index]))            /*@ exactly_the_active_alternative */
__CPROVER_ensures(v->index < I ==> *seed == __CPROVER_old(*seed));

size_t hash_variant(const struct nvariant *t)
__CPROVER_requires(nitro_exc == 0 && H_OBJ(t) && t->n <= HT_MAX && t->index < t->n)
__CPROVER_assigns()
__CPROVER_ensures(__CPROVER_return_value == HC((size_t)0, t->h[t->index]));                       /*@ exactly_the_active_alternative */

size_t hash_std(const struct hval *t)
__CPROVER_requires(nitro_exc == 0 && H_OBJ_OR_ROK(hash_std, t))
__CPROVER_assigns()
__CPROVER_ensures(t->eqclass == g_sh_class ==> __CPROVER_return_value == g_sh_ret);                /*@ equal_values_hash_equal */

#define HASH_PTR(name) \
size_t name(const struct hval *const *p) \
__CPROVER_requires(nitro_exc == 0 && H_OBJ(p) && __CPROVER_is_fresh(*p, sizeof(struct hval))) \
__CPROVER_assigns() \
__CPROVER_ensures((*p)->eqclass == g_sh_class ==> __CPROVER_return_value == g_sh_ret)              /*@ hash_of_the_pointee */
HASH_PTR(hash_unique_ptr);
HASH_PTR(hash_shared_ptr);

/* ---- tuple_operators ---- */
const struct ntuple *to_as_tuple(const struct ntuple *t)
__CPROVER_requires(H_OBJ_OR_ROK(to_as_tuple, t))
__CPROVER_assigns()
__CPROVER_ensures(__CPROVER_pointer_equals(__CPROVER_return_value, t));
const struct ntuple *to_as_tuple_c(const struct ntuple *t)
__CPROVER_requires(H_OBJ_OR_ROK(to_as_tuple_c, t))
__CPROVER_assigns()
__CPROVER_ensures(__CPROVER_pointer_equals(__CPROVER_return_value, t));                           /*@ the_same_member_tuple_for_const_objects */

#define TO_CMP(name, OP) \
nbool name(const struct ntuple *x, const struct ntuple *y) \
__CPROVER_requires(nitro_exc == 0 && H_OBJ(x) && H_OBJ(y)) \
__CPROVER_assigns() \
__CPROVER_ensures((g_cmp_op == (OP) && x->member_tuple_id == g_cmp_a && y->member_tuple_id == g_cmp_b) ==> __CPROVER_return_value == g_cmp_ret)  /*@ the_same_comparison_of_the_member_tuples */
TO_CMP(to_op_ne, OP_NE); TO_CMP(to_op_eq, OP_EQ); TO_CMP(to_op_lt, OP_LT); TO_CMP(to_op_gt, OP_GT); TO_CMP(to_op_le, OP_LE); TO_CMP(to_op_ge, OP_GE);

size_t to_hash(const struct ntuple *self)
__CPROVER_requires(nitro_exc == 0 && H_OBJ_OR_ROK(to_hash, self) && self->n <= HT_MAX && g_eh_next == 0)
__CPROVER_assigns(g_eh_next)
__CPROVER_ensures(g_eh_next == self->n)                                                          /*@ hashes_the_whole_member_tuple */
__CPROVER_ensures(self->n == 2 ==> __CPROVER_return_value == HC(HC((size_t)0, self->h[0]), self->h[1]));

size_t hash_hashable(const struct ntuple *t)
__CPROVER_requires(nitro_exc == 0 && H_OBJ_OR_ROK(hash_hashable, t) && t->n <= HT_MAX && g_eh_next == 0)
__CPROVER_assigns(g_eh_next)
__CPROVER_ensures(g_eh_next == t->n)
__CPROVER_ensures(t->n == 2 ==> __CPROVER_return_value == HC(HC((size_t)0, t->h[0]), t->h[1]));   /*@ delegates_to_the_member_hash */

size_t hash_wrapper_call(const struct ntuple *t)
__CPROVER_requires(nitro_exc == 0 && H_OBJ(t) && t->n <= HT_MAX && g_eh_next == 0)
__CPROVER_assigns(g_eh_next)
__CPROVER_ensures(g_eh_next == t->n)
__CPROVER_ensures(t->n == 2 ==> __CPROVER_return_value == HC(HC((size_t)0, t->h[0]), t->h[1]));   /*@ the_library_hash_of_the_key */
#endif
