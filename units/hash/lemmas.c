/* C16 lemmas on the REAL combiner (hc_impl is not replaced here: its extracted body runs). */
void h_lemma_hc_injective(void)
{
    size_t s = nondet_size_t(), v1 = nondet_size_t(), v2 = nondet_size_t();
    size_t a = s, b = s;
    hc_impl(&a, v1);
    hc_impl(&b, v2);
    if (v1 != v2)
        __CPROVER_assert(a != b, "changing one component (same running seed) changes the combined hash");
    else
        __CPROVER_assert(a == b, "equal components combine equally");
    __CPROVER_assert(0, "CANARY lemma reached");
}
void h_lemma_hc_order_sensitive(void)
{
    size_t x = nondet_size_t(), y = nondet_size_t();
    size_t ab = 0, ba = 0, aa = 0;
    hc_impl(&ab, x); hc_impl(&ab, y);
    hc_impl(&ba, y); hc_impl(&ba, x);
    hc_impl(&aa, x); hc_impl(&aa, x);
    __CPROVER_assert(ab == ba, "MUSTFAIL the hash of (x,y) always equals the hash of (y,x): the hash would not depend on component order");
    __CPROVER_assert(aa == 0, "MUSTFAIL the hash of (x,x) is always 0: repeated components would cancel");
    __CPROVER_assert(0, "CANARY lemma reached");
}
