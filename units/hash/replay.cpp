// Native replay for the hash unit on the REAL headers: equal values hash equal over small grids (incl. +0.0/-0.0),
// the hash depends on component order, comparison operators agree with the member tuple.   hash_replay <job>
#include <nitro/lang/hash.hpp>
#include <nitro/lang/tuple_operators.hpp>
#include <cmath>
#include <cstdio>
#include <string>
#include <tuple>
#include <vector>
#include <memory>
struct V : nitro::lang::tuple_operators<V>
{
    int a; std::string b; double c;
    V(int a, std::string b, double c) : a(a), b(b), c(c) {}
    auto as_tuple() { return std::tie(a, b, c); }
};
int main(int argc, char** argv)
{
    if (argc < 2) return 2;
    using nitro::lang::hash;
    std::vector<double> ds = { 0.0, -0.0, 1.5, -1.5 };
    std::vector<int> is = { 0, 1, 2, -1 };
    std::vector<std::string> ss = { "", "a", "b" };
    // equal => equal hash
    for (double x : ds) for (double y : ds) if (x == y)
    {
        if (hash(x) != hash(y) || hash(std::make_tuple(1, x)) != hash(std::make_tuple(1, y)) || hash(std::make_pair(x, 2)) != hash(std::make_pair(y, 2)) ||
            hash(std::make_shared<double>(x)) != hash(std::make_shared<double>(y)))
        { std::printf("DEVIATION equal values %g and %g (signbit %d/%d) hash differently\n", x, y, std::signbit(x), std::signbit(y)); return 1; }
    }
    std::vector<V> vs;
    for (int i : is) for (auto& s : ss) for (double d : ds) vs.emplace_back(i, s, d);
    for (auto& x : vs) for (auto& y : vs)
    {
        auto tx = std::make_tuple(x.a, x.b, x.c), ty = std::make_tuple(y.a, y.b, y.c);
        if ((x == y) != (tx == ty) || (x != y) != (tx != ty) || (x < y) != (tx < ty) || (x > y) != (tx > ty) || (x <= y) != (tx <= ty) || (x >= y) != (tx >= ty))
        { std::printf("DEVIATION comparison operators disagree with the member tuple for (%d,%s,%g) vs (%d,%s,%g)\n", x.a, x.b.c_str(), x.c, y.a, y.b.c_str(), y.c); return 1; }
        if (x == y && (x.hash() != y.hash() || hash(x) != hash(y))) { std::printf("DEVIATION equal values hash differently\n"); return 1; }
        if (x.hash() != hash(tx)) { std::printf("DEVIATION hash() is not the hash of the member tuple\n"); return 1; }
    }
    // order / component dependence on a grid: the two orders must differ for most pairs
    int same = 0, total = 0, zero = 0;
    for (int a = 0; a < 40; ++a) for (int b = 0; b < 40; ++b) if (a != b) { ++total; if (hash(std::make_tuple(a, b)) == hash(std::make_tuple(b, a))) ++same; }
    for (int a = 1; a < 40; ++a) if (hash(std::make_tuple(a, a)) == hash(std::make_tuple(a + 1, a + 1))) ++zero;
    if (same * 10 > total || zero > 3) { std::printf("DEVIATION hash ignores component order: %d of %d swapped pairs collide, %d of 39 (a,a) keys collide\n", same, total, zero); return 1; }
    std::printf("CONFORMS %s\n", argv[1]);
    return 0;
}
