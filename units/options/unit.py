"""options unit: the command line parser (C01-C04, C11-C15).
Layer 1: user_input (token).  Layer 2: base/option/multi_option/toggle.  Layer 3: parser.
std::string := ostr (interned identity, length, first bytes, ghost coordinates of the substrings the parser takes);
std::multiset of letters := omset (total, count of the witness letter); maps of options := arrays of at most K entries in key order."""
import re
from vf.extract import Rule, CallRule, ExtractionError
from vf.unit import Unit, F, Lemma, ScopeEnd

UI = "include/nitro/options/user_input.hpp"
BASE = "include/nitro/options/option/base.hpp"
OPT = "src/options/option.cpp"
MOPT = "src/options/multi_option.cpp"
TOG = "src/options/toggle.cpp"
PAR = "src/options/parser.cpp"
GRP = "src/options/group.cpp"
UCLS = r"class\s+user_input\b"

TOKEN_REGEXES = {
    r'-{1,2}[^-=]+[^=]*=?.*': 1,            # '.' does not match line terminators
    r'-{1,2}[^-=]+[^=]*=?[\\s\\S]*': 0,
}
ALL_PARSE = ["C01", "C02", "C04", "C12"]


def raise_rules():
    return [CallRule("D4.raise-parsing", r"(?<![\w:])raise<parsing_error>\(", lambda m, a: "NITRO_THROW(EXC_PARSING_ERROR)"),
            CallRule("D4.raise-parser", r"(?<![\w:])raise<parser_error>\(", lambda m, a: "NITRO_THROW(EXC_PARSER_ERROR)")]


class LocalName:
    """the name of a local carries no meaning: the local introduced by `decl_re` (group 1) is renamed to the name the rules and contracts use"""
    name = "D3.local-name"

    def __init__(self, decl_re, canonical):
        self.decl_re, self.canonical = decl_re, canonical

    def apply(self, text):
        m = re.search(self.decl_re, text)
        if not m or m.group(1) == self.canonical:
            return text, 1 if m else 0
        if re.search(r"\b%s\b" % self.canonical, text):
            raise ExtractionError("cannot rename the local %s to %s: the name is taken" % (m.group(1), self.canonical))
        return re.sub(r"\b%s\b" % re.escape(m.group(1)), self.canonical, text), 1


def build(src):
    ENVNAME = LocalName(r"(?:auto|std::string|struct ostr) (\w+) = nitro::env::get\(", "env_value")
    u = Unit("options", src)
    u.rules = raise_rules() + [Rule("D2.auto", r"\bauto\b", "__auto_type"), Rule("D7.npos", r"std::string::npos", "NITRO_NPOS"), Rule("D7.size_t", r"std::size_t", "size_t")]
    # ------------------------------------------------------------------ layer 1: user_input
    mem = src.members(UI, UCLS)
    if [m[1] for m in mem] != ["arg_", "name_", "value_"]:
        raise ExtractionError("user_input members changed: %r" % mem)
    c = src.find(UI, r"user_input\(const std::string& arg\)", within=UCLS)
    if c["init"] != [("arg_", "arg")]:
        raise ExtractionError("user_input constructor initialisers changed: %r" % (c["init"],))
    m = re.search(r'std::regex_match\(arg,\s*std::regex\("((?:[^"\\]|\\.)*)"\)\)', c["body"])
    if not m or m.group(1) not in TOKEN_REGEXES:
        raise ExtractionError("user_input: unknown token regex literal %r (the stub knows %r)" % (m.group(1) if m else None, list(TOKEN_REGEXES)))
    dotflag = TOKEN_REGEXES[m.group(1)]
    u.static_facts.append("token pattern in user_input: %s (a '.' after the '=' excludes line terminators: %s)" % (m.group(1), bool(dotflag)))

    class CtorInit:
        name = "ctor.member-init"

        def apply(self, text):
            return ("\n    self->arg_ = *arg;                       /* arg_(arg) */\n    self->name_ = nitro_empty_ostr();        /* default-constructed */\n"
                    "    self->value_has = 0;                     /* empty optional */\n") + text, 1
    M = Rule("D3.members", r"(?<![\w.>])(arg_|name_|value_)\b", r"self->\1")
    ui_rules = [
        Rule("D7.string-find-eq", r"\barg_\.find\(\"=\"\)", "ostr_find_eq(&arg_)"),
        Rule("D7.substr-name", r"\bname_\s*=\s*arg_\.substr\(0,\s*sep\);", "name_ = ostr_name_part(&arg_, sep);"),
        Rule("D7.substr-value", r"\bvalue_\s*=\s*arg_\.substr\(sep \+ 1\);", "{ value_ = ostr_value_part(&arg_, sep + 1); self->value_has = 1; }"),
        Rule("D7.regex-token", r'std::regex_match\(arg,\s*std::regex\("(?:[^"\\]|\\.)*"\)\)', "ostr_regex_token(arg, %d)" % dotflag),
        Rule("D7.string-index", r"\b(name_|arg_)\[([012])\]", r"OSTR_AT\2(\1)"),
        Rule("D7.string-eq-dd", r"\barg_\s*==\s*\"--\"", "(arg_.id == OSTR_ID_DD)"),
        Rule("D7.string-size", r"\b(name_|arg_)\.size\(\)", r"\1.len"),
        Rule("D7.string-empty", r"\b(name_|arg_)\.empty\(\)", r"(\1.len == 0)"),
        Rule("D7.optional-bool", r"static_cast<bool>\(value_\)", "self->value_has"),
        Rule("D7.optional-bool", r"(?<=[(!\s])value_(?=\s*(?:\?|\)|&&|\|\|))", "self->value_has"),      # optional contextually converted to bool
        Rule("D7.optional-deref", r"\*value_\b", "value_"),
        Rule("D6.starts-with-no", r"nitro::lang::starts_with\(name_,\s*\"--no-\"\)", "ostr_starts_with_no(&name_)"),
        Rule("D6.member-call", r"(?<![\w.>])(is_value|is_double_dash|is_short|is_named|is_argument|has_value|has_prefix)\(\)", r"ui_\1(self)"),
        Rule("D6.name-substr", r"return\s+name\(\)\.substr\(5\);", "{ const struct ostr *nitro_n = ui_name(self); NITRO_PROPAGATE; return ostr_suffix(nitro_n, 5); }"),
        Rule("D7.range-ctor", r"return\s*\{\s*name_\.begin\(\) \+ 2,\s*name_\.end\(\)\s*\};", "return ostr_suffix(&name_, 2);"),
        M,
    ]
    su = "struct user_input *self"
    csu = "const struct user_input *self"
    P1 = ["C01", "C02", "C04", "C11", "C12"]
    f = u.add(F("ui_ctor", UI, r"user_input\(const std::string& arg\)", "void ui_ctor(%s, const struct ostr *arg)" % su, P1, within=UCLS, pre=[CtorInit()], rules=ui_rules,
                must_fire=["D7.string-find-eq", "D7.substr-name", "D7.substr-value", "D7.regex-token"]))
    f.custom_init = True
    for nm in ["is_value", "is_double_dash", "is_short", "is_named", "is_argument", "has_value"]:
        u.add(F("ui_" + nm, UI, r"bool %s\(\) const noexcept" % nm, "nbool ui_%s(%s)" % (nm, csu), P1, within=UCLS, dflt="0", rules=ui_rules))
    u.add(F("ui_has_prefix", UI, r"bool has_prefix\(\) const", "nbool ui_has_prefix(%s)" % csu, P1, within=UCLS, dflt="0", rules=ui_rules, must_fire=["D6.starts-with-no"]))
    u.add(F("ui_data", UI, r"const std::string& data\(\) const noexcept", "const struct ostr *ui_data(%s)" % csu, P1, within=UCLS, dflt="0", ret_ref=True, rules=ui_rules))
    u.add(F("ui_name_without_prefix", UI, r"std::string name_without_prefix\(\) const", "struct ostr ui_name_without_prefix(%s)" % csu, P1, within=UCLS, dflt="nitro_empty_ostr()", rules=ui_rules, must_fire=["D6.name-substr"]))
    u.add(F("ui_name", UI, r"const std::string& name\(\) const", "const struct ostr *ui_name(%s)" % csu, P1, within=UCLS, dflt="0", ret_ref=True, rules=ui_rules))
    u.add(F("ui_value", UI, r"const std::string& value\(\) const", "const struct ostr *ui_value(%s)" % csu, P1, within=UCLS, dflt="0", ret_ref=True, rules=ui_rules))
    u.add(F("ui_as_short_list", UI, r"std::multiset<std::string> as_short_list\(\) const", "void ui_as_short_list(struct omset *result, %s)" % csu, P1, within=UCLS, pre=[LocalName(r"for \((?:std::)?size_t (\w+) = 1;", "i")],
            rules=[Rule("D3.rvo-local", r"std::multiset<std::string>\s+result;", "omset_init(result);"),
                   Rule("D7.multiset-emplace", r"\bresult\.emplace\(1,\s*arg_\[i\]\);", "omset_emplace_char(result, ostr_at(&arg_, i));"),
                   Rule("D3.rvo-return", r"return\s+result;", "return;")] + ui_rules,
            must_fire=["D3.rvo-local", "D7.multiset-emplace", "D3.rvo-return"]))
    u.add(F("ui_as_named", UI, r"std::string as_named\(\) const", "struct ostr ui_as_named(%s)" % csu, P1, within=UCLS, dflt="nitro_empty_ostr()", rules=ui_rules, must_fire=["D7.range-ctor"]))
    u.stubs = ["ostr_name_part", "ostr_value_part", "ostr_suffix", "ostr_regex_token", "ostr_at"]
    u.trusted = [
        "extraction rules D1-D10: std::string := ostr (interned identity, length, first three bytes, position of the first '=', identities of the substrings taken from it)",
        "std::string::find(\"=\") / substr / operator[] / ==, std::multiset::emplace/count behave as the C++ standard says (ostr/omset stubs)",
        "std::regex_match with the token pattern accepts exactly: one or two dashes followed by a byte that is neither '-' nor '=' (structural reading of the literal, which is checked on every run); regex stack depth and allocation failure are not modelled",
    ]
    # ------------------------------------------------------------------ layer 2: base / option / multi_option / toggle
    P2 = ["C01", "C02", "C03", "C04", "C11", "C14"]
    TRUTHY = ["TRUE", "ON", "YES", "true", "on", "yes", "1", "Y", "with", "True", "On", "WITH", "With", "y", "Yes"]
    FALSY = ["false", "FALSE", "without", "0", "NO", "no", "Without", "n", "off", "OFF", "N", "False", "Off", "WITHOUT", "No"]
    VOCAB = {w: 16 + i for i, w in enumerate(TRUTHY)}
    VOCAB.update({w: 32 + i for i, w in enumerate(FALSY)})
    unknown_words = []

    def word_id(mm):
        w = mm.group(2)
        if w in VOCAB:
            return "(%s.id == %d /* \"%s\" */)" % (mm.group(1), VOCAB[w], w)
        if w not in unknown_words:
            unknown_words.append(w)
        return "(%s.id == %d /* \"%s\": not in the documented vocabulary */)" % (mm.group(1), 1000 + unknown_words.index(w), w)
    BM = Rule("D3.members", r"(?<![\w.>])(name_|short_|env_|dirty_|value_|default_|is_optional_|given_|reversable_)\b", r"self->\1")
    base_calls = [Rule("D6.base-member-call", r"(?<![\w.>:])(has_short_name|short_name|name|has_env|env|has_non_default|given)\(\)", r"base_\1(self)"),
                  ]
    arg_calls = [Rule("D6.token-call", r"\barg\.(is_argument|is_short|is_named|has_value|has_prefix|is_value)\(\)", r"ui_\1(arg)"),
                 Rule("D6.token-call-value", r"\barg\.value\(\)", "(*ui_value(arg))"),
                 ]
    sb = "const struct obase *self"
    # base observers
    for nm, ret, expr in [("has_short_name", "nbool", None), ("has_env", "nbool", None), ("has_non_default", "nbool", None)]:
        u.add(F("base_" + nm, BASE, r"bool %s\(\) const" % nm, "nbool base_%s(%s)" % (nm, sb), P2, within=r"class\s+base\b", dflt="0",
                rules=[Rule("D7.string-empty", r"!(short_|env_)\.empty\(\)", r"(\1.len != 0)"), BM]))
    for nm in ["short_name", "name", "env"]:
        u.add(F("base_" + nm, BASE, r"const std::string& %s\(\) const" % nm, "const struct ostr *base_%s(%s)" % (nm, sb), P2, within=r"class\s+base\b", dflt="0", ret_ref=True, rules=[BM]))
    u.add(F("base_matches", BASE, r"virtual bool matches\(const user_input& arg\) const", "nbool base_matches(%s, const struct user_input *arg)" % sb, P2, within=r"class\s+base\b", dflt="0",
            rules=[Rule("D3.multiset-local", r"__auto_type list = arg\.as_short_list\(\);", "struct omset list; ui_as_short_list(&list, arg); NITRO_PROPAGATE;"),
                   Rule("D7.multiset-size", r"\blist\.size\(\)", "list.total"),
                   Rule("D7.multiset-count", r"\blist\.count\(base_short_name\(self\)\)", "omset_count(&list, base_short_name(self))"),
                   Rule("D3.multiset-temporary", r"\barg\.as_short_list\(\)\.count\(base_short_name\(self\)\)", "toggle_short_count(arg, base_short_name(self))"),
                   Rule("D3.multiset-temporary", r"\barg\.as_short_list\(\)\.size\(\)", "ui_short_total(arg)"),
                   Rule("D7.string-size", r"\barg\.(name|value|data)\(\)\.size\(\)", r"ui_\1(arg)->len"),
                   Rule("D6.named-eq", r"\barg\.as_named\(\)\s*==\s*base_name\(self\)", "ostr_eq_v(ui_as_named(arg), *base_name(self))"),
                   Rule("D7.string-compare", r"\barg\.name\(\)\.compare\(2,\s*base_name\(self\)\.size\(\),\s*base_name\(self\)\)\s*==\s*0", "ostr_prefix_at2_is(ui_name(arg), base_name(self))")] ,
            pre=[Rule("D2.auto", r"\bauto\b", "__auto_type")] + arg_calls + base_calls,
            must_fire=["D3.multiset-local|D3.multiset-temporary", "D7.multiset-count|D3.multiset-temporary", "D6.named-eq|D7.string-compare"], extra_replace=["ui_as_short_list"]))
    # toggle
    st = "struct otoggle *self"
    cst = "const struct otoggle *self"
    TB = [Rule("D6.base-member-call", r"(?<![\w.>:])(has_short_name|short_name|name|has_env|env|has_non_default)\(\)", r"base_\1(&self->b)"),
          Rule("D6.own-member-call", r"(?<![\w.>:])given\(\)", "toggle_given(self)"),
          Rule("D3.base-members", r"(?<![\w.>])(dirty_|env_|short_)\b", r"self->b.\1"),
          Rule("D3.members", r"(?<![\w.>])(given_|default_|reversable_)\b", r"self->\1")]
    u.add(F("toggle_given", TOG, r"int toggle::given\(\) const", "int toggle_given(%s)" % cst, P2, dflt="0", rules=TB))
    u.add(F("toggle_is_reversible", TOG, r"bool toggle::is_reversible\(\) const", "nbool toggle_is_reversible(%s)" % cst, ["C11"], dflt="0", rules=TB))
    u.add(F("toggle_allow_reverse", TOG, r"toggle& toggle::allow_reverse\(\)", "struct otoggle *toggle_allow_reverse(%s)" % st, ["C11"], dflt="0", ret_ref=True, rules=[Rule("D3.this", r"\*this\b", "(*self)")] + TB))
    u.add(F("toggle_default_value_bool", TOG, r"toggle& toggle::default_value\(bool def\)", "struct otoggle *toggle_default_value_bool(%s, nbool def)" % st, ["C11"], dflt="0", ret_ref=True, rules=[Rule("D3.this", r"\*this\b", "(*self)")] + TB))
    u.add(F("toggle_default_value_int", TOG, r"toggle& toggle::default_value\(int def\)", "struct otoggle *toggle_default_value_int(%s, int def)" % st, ["C11"], dflt="0", ret_ref=True, rules=[Rule("D3.this", r"\*this\b", "(*self)")] + TB))
    u.add(F("toggle_parse_env_value", TOG, r"bool toggle::parse_env_value\(const std::string& env_value\)", "nbool toggle_parse_env_value(const struct ostr *env_value_p)", ["C03", "C04", "C11"], dflt="0",
            pre=[Rule("D3.refparam", r"\benv_value\b", "(*env_value_p)"), Rule("D7.string-eq-literal", r"(\(\*env_value_p\))\s*==\s*\"([^\"]*)\"", word_id)],
            must_fire=["D7.string-eq-literal"]))
    u.add(F("toggle_update_value", TOG, r"void toggle::update_value\(const user_input& arg\)", "void toggle_update_value(%s, const struct user_input *arg)" % st, P2,
            pre=arg_calls, rules=[Rule("D3.short-count", r"\barg\.as_short_list\(\)\.count\(short_name\(\)\)", "toggle_short_count(arg, base_short_name(&self->b))")] + TB,
            must_fire=["D3.short-count"], extra_replace=["ui_as_short_list"]))
    u.add(F("toggle_prepare", TOG, r"void toggle::prepare\(\)", "void toggle_prepare(%s)" % st, ["C14"], rules=TB))
    u.add(F("toggle_check", TOG, r"void toggle::check\(\)", "void toggle_check(%s)" % st, ["C03", "C04", "C11", "C14"],
            rules=[Rule("D7.env-get", r"nitro::env::get\((?:env\(\)|base_env\(&self->b\))\)", "nitro_env_get(base_env(&self->b))"),
                   Rule("D7.string-empty", r"!env_value\.empty\(\)", "(env_value.len != 0)"),
                   Rule("D6.parse_env_value", r"\bparse_env_value\(env_value\)", "toggle_parse_env_value(&env_value)"),
                   Rule("D4.propagate-assign", r"(?m)^(\s*)given_ = (toggle_parse_env_value\([^;]*\));", r"\1{ nbool nitro_b = \2; NITRO_PROPAGATE; given_ = nitro_b; }")] + TB,
            pre=[ENVNAME, Rule("D2.auto", r"\bauto\b", "struct ostr")], must_fire=["D7.env-get", "D6.parse_env_value"]))
    u.add(F("toggle_matches", TOG, r"bool toggle::matches\(const user_input& arg\) const", "nbool toggle_matches(%s, const struct user_input *arg)" % cst, P2, dflt="0",
            pre=arg_calls, rules=[Rule("D6.noprefix-eq", r"\barg\.name_without_prefix\(\)\s*==\s*name\(\)", "ostr_eq_v(ui_name_without_prefix(arg), *base_name(&self->b))"),
                                  Rule("D6.base-call", r"\bbase::matches\(arg\)", "base_matches(&self->b, arg)")] + TB,
            must_fire=["D6.noprefix-eq", "D6.base-call"]))
    # option
    so = "struct ooption *self"
    OB = [Rule("D6.base-member-call", r"(?<![\w.>:])(has_short_name|short_name|name|has_env|env|has_non_default)\(\)", r"base_\1(&self->b)"),
          Rule("D7.optional-deref", r"\(\*(value_|default_)\)\.empty\(\)", r"(self->\1.len == 0)"),
          Rule("D7.optional-bool", r"(\(|&&|\|\||!)\s*(value_|default_)\s*(?=\)|&&|\|\|)", r"\1 self->\2has "),
          Rule("D7.optional-bool", r"static_cast<bool>\((value_|default_)\)", r"self->\1has"),
          Rule("D7.optional-assign", r"\bvalue_\s*=\s*lang::optional<std::string>\(\);", "self->value_has = 0;"),
          Rule("D7.optional-assign", r"\bvalue_\s*=\s*\*default_;", "{ self->value_ = self->default_; self->value_has = 1; }"),
          Rule("D7.optional-assign", r"\bvalue_\s*=\s*std::move\(\*default_\);", "{ self->value_ = self->default_; self->value_has = 1; self->default_.len = 0; self->default_.id = OSTR_ID_EMPTY; }"),
          Rule("D7.optional-assign", r"\bvalue_\s*=\s*env_value;", "{ self->value_ = env_value; self->value_has = 1; }"),
          Rule("D7.optional-assign", r"\bvalue_\s*=\s*\(\*ui_value\(arg\)\);", "{ const struct ostr *nitro_v = ui_value(arg); NITRO_PROPAGATE; self->value_ = *nitro_v; self->value_has = 1; }"),
          Rule("D7.env-get", r"nitro::env::get\((?:env\(\)|base_env\(&self->b\))\)", "nitro_env_get(base_env(&self->b))"),
          Rule("D7.string-empty", r"!env_value\.empty\(\)", "(env_value.len != 0)"),
          Rule("D3.base-members", r"(?<![\w.>])(dirty_|env_|short_)\b", r"self->b.\1"),
          Rule("D3.members", r"(?<![\w.>])(is_optional_)\b", r"self->\1")]
    u.add(F("option_update_value", OPT, r"void option::update_value\(const user_input& arg\)", "void option_update_value(%s, const struct user_input *arg)" % so, P2, pre=arg_calls, rules=OB))
    u.add(F("option_prepare", OPT, r"void option::prepare\(\)", "void option_prepare(%s)" % so, ["C14"], rules=OB))
    u.add(F("option_check", OPT, r"void option::check\(\)", "void option_check(%s)" % so, ["C03", "C04", "C14", "C02"], pre=[ENVNAME, Rule("D2.auto", r"\bauto\b", "struct ostr")] + arg_calls, rules=OB, must_fire=["D7.env-get"]))
    u.add(F("option_get", OPT, r"const std::string& option::get\(\) const", "const struct ostr *option_get(const struct ooption *self)", ["C02"], dflt="0", ret_ref=True, rules=[Rule("D7.optional-deref", r"\*value_\b", "self->value_")]))
    # multi_option
    sm = "struct omulti *self"
    MB = [Rule("D6.base-member-call", r"(?<![\w.>:])(has_short_name|short_name|name|has_env|env|has_non_default)\(\)", r"base_\1(&self->b)"),
          Rule("D7.vector-empty", r"\bvalue_\.empty\(\)", "(self->value_.count == 0)"),
          Rule("D7.vector-clear", r"\bvalue_\.clear\(\);", "ovec_clear(&self->value_);"),
          Rule("D7.vector-push", r"\bvalue_\.push_back\(\(\*ui_value\(arg\)\)\);", "{ const struct ostr *nitro_v = ui_value(arg); NITRO_PROPAGATE; ovec_push_back(&self->value_, nitro_v); }"),
          Rule("D7.vector-push", r"\bvalue_\.push_back\(element\);", "ovec_push_back(&self->value_, &element);"),
          Rule("D7.vector-assign", r"\bvalue_\s*=\s*\*default_;", "self->value_ = self->default_;"),
          # moving out of a std::vector leaves it empty (libstdc++; the standard says valid but unspecified)
          Rule("D7.vector-assign", r"\bvalue_\s*=\s*std::move\(\*default_\);", "{ self->value_ = self->default_; ovec_clear(&self->default_); }"),
          Rule("D7.optional-bool", r"\bif\s*\(\s*default_\s*\)", "if (self->default_has)"),
          Rule("D7.env-get", r"nitro::env::get\((?:env\(\)|base_env\(&self->b\))\)", "nitro_env_get(base_env(&self->b))"),
          Rule("D7.string-empty", r"!env_value\.empty\(\)", "(env_value.len != 0)"),
          Rule("D7.string-empty", r"!element\.empty\(\)", "(element.len != 0)"), Rule("D7.string-empty", r"\b(element|env_value)\.empty\(\)", r"(\1.len == 0)"),
          Rule("D7.getline-split", r"std::string element;\s*std::stringstream str;\s*str << env_value;", "struct ostr element; struct ogetline str; ogetline_init(&str, &env_value);"),
          Rule("D7.getline", r"std::getline\(str,\s*element,\s*';'\)", "ogetline_next(&str, &element)"),
          Rule("D7.vector-index", r"\bvalue_\[i\]", "(*ovec_at(&self->value_, i))"),
          Rule("D7.vector-size", r"\bvalue_\.size\(\)", "self->value_.count"),
          Rule("D3.base-members", r"(?<![\w.>])(dirty_|env_|short_)\b", r"self->b.\1"),
          Rule("D3.members", r"(?<![\w.>])(is_optional_)\b", r"self->\1")]
    u.add(F("multi_update_value", MOPT, r"void multi_option::update_value\(const user_input& arg\)", "void multi_update_value(%s, const struct user_input *arg)" % sm, P2, pre=arg_calls, rules=MB, must_fire=["D7.vector-push"]))
    u.add(F("multi_prepare", MOPT, r"void multi_option::prepare\(\)", "void multi_prepare(%s)" % sm, ["C14"], rules=MB))
    u.add(F("multi_check", MOPT, r"void multi_option::check\(\)", "void multi_check(%s)" % sm, ["C03", "C04", "C14", "C02"], pre=[ENVNAME, LocalName(r"std::string (\w+);\s*std::stringstream", "element"), Rule("D2.auto", r"\bauto\b", "struct ostr")], rules=MB, must_fire=["D7.env-get", "D7.getline"]))
    u.add(F("multi_count", MOPT, r"std::size_t multi_option::count\(\) const", "size_t multi_count(const struct omulti *self)", ["C02"], dflt="0", rules=MB))
    lits = re.findall(r'env_value\s*==\s*"([^"]*)"', src.find("src/options/toggle.cpp", r"bool toggle::parse_env_value\(const std::string& env_value\)")["body"])
    u.static_facts.append("toggle::parse_env_value compares against %d string literals; %d of them are outside the documented vocabulary: %r" % (len(lits), len([w for w in lits if w not in VOCAB]), [w for w in lits if w not in VOCAB]))
    u._unknown_words = unknown_words
    u.stubs += ["nitro_env_get", "ovec_push_back", "ogetline_next", "ovec_at"]
    u.trusted += [
        "nitro::env::get(name) (verified in the envdl unit, C19) is used through its contract: the value of the variable, or the empty string when unset",
        "std::getline(stream, element, ';') yields the ';'-separated pieces in order and no final empty piece (ogetline stub); std::vector::push_back/clear/operator= as the standard says",
        "the 30 environment words of a toggle are fixed in the contract from the documented vocabulary; every other string literal the code compares with is a different word",
    ]
    # ------------------------------------------------------------------ layer 3: parser
    P3 = ["C01", "C02", "C04", "C12"]
    K = 2       # declarations per kind (DESIGN.md 4.1); arrays in key order
    # std::vector<user_input>::const_iterator is modelled as a POSITION in the vector (size_t) next to the vector itself: `*it` is
    # args->a[it], `it + 1` the next position, `end` the length.  (A pointer model made every token access after an advance a
    # byte-extract at a symbolic offset: 10^8 clauses.)
    it_rules = [Rule("D3.iterator-deref", r"\*it\b", "IT_TOK"), Rule("D3.iterator-arrow", r"\bit->", "IT_TOK->"),
                Rule("D3.iterator-next", r"\bit \+ 1\b", "(*it_ref) + 1"), Rule("D3.iterator-inc", r"\+\+it\b", "++(*it_ref)"),
                Rule("D3.iterator-end", r"\bnext (!=|==) end\b", r"next \1 args->n"), Rule("D3.iterator-end", r"\bend (!=|==) next\b", r"args->n \1 next"), Rule("D3.iterator-deref", r"\*next\b", "NEXT_TOK"),
                Rule("D3.iterator-arrow", r"\bnext->", "NEXT_TOK->")]
    u.shared_decls += "#define IT_TOK (&args->a[*it_ref])\n#define NEXT_TOK (&args->a[next])\n"
    tok_calls = [Rule("D6.token-call", r"\bIT_TOK->(is_short|has_value|is_value|is_double_dash|is_named)\(\)", r"ui_\1(IT_TOK)"),
                 Rule("D6.token-call", r"\bNEXT_TOK->(is_value|has_value|is_short|is_named|is_double_dash|is_argument)\(\)", r"ui_\1(NEXT_TOK)"),
                 Rule("D6.token-call", r"\bin\.(is_short)\(\)", r"ui_\1(in)"),
                 Rule("D6.short-total", r"\bIT_TOK->as_short_list\(\)\.size\(\)", "ui_short_total(IT_TOK)"),
                 Rule("D6.short-total", r"\bin\.as_short_list\(\)\.size\(\)", "ui_short_total(in)"),
                 Rule("D6.token-data", r"\bIT_TOK->data\(\)", "ui_data(IT_TOK)"), Rule("D6.token-data", r"\bin\.data\(\)", "ui_data(in)")]
    for nm, kind, upd in [("tpo_option", "ooption", "option_update_value"), ("tpo_multi", "omulti", "multi_update_value")]:
        u.add(F(nm, PAR, r"bool parser::try_parse_as_option\(Options&& options, Iter& it, Iter end\)",
                "nbool %s(struct %s *options, size_t n_options, size_t *it_ref, const struct oargs *args)" % (nm, kind), P3 + ["C03", "C11"], dflt="0",
                pre=[Rule("D2.auto", r"\bauto\b", "__auto_type")] + it_rules + tok_calls,
                rules=[Rule("D10.map-loop", r"for \(__auto_type& option : options\)", "for (size_t k_ = 0; k_ < n_options; ++k_)"),
                       Rule("D9.matches", r"\boption\.second->matches\(IT_TOK\)", "base_matches(&options[k_].b, IT_TOK)"),
                       Rule("D9.update_value", r"\boption\.second->update_value\((IT_TOK|NEXT_TOK)\);", lambda mm, upd=upd: "%s(&options[k_], %s); NITRO_PROPAGATE;" % (upd, mm.group(1))),
                       Rule("D3.local-iterator", r"__auto_type next =", "size_t next ="),
                       Rule("D4.raise-arg", r"\boption\.second->name\(\)", "0")],
                must_fire=["D10.map-loop", "D9.matches", "D9.update_value"], unwind=K + 1, extra_replace=["ui_as_short_list"],
                harness="""void h_%s(void)
{
    struct %s options[NITRO_K]; struct oargs a; size_t n_options = nondet_size_t(); size_t it = 0;
    NITRO_HAVOC;
    %s(options, n_options, &it, &a);
    NITRO_CANARIES;
}
""" % (nm, kind, nm)))
    u.add(F("try_parse_as_toggle", PAR, r"bool parser::try_parse_as_toggle\(const user_input& in\)", "nbool try_parse_as_toggle(struct oparser *self, const struct user_input *in)", P3 + ["C11"], dflt="0",
            pre=[Rule("D2.auto", r"\bauto\b", "__auto_type")] + tok_calls,
            rules=[Rule("D10.map-loop", r"for \(__auto_type& option : get_all_toggles\(\)\)", "for (size_t k_ = 0; k_ < self->n_toggles; ++k_)"),
                   Rule("D9.matches", r"\boption\.second->matches\(in\)", "toggle_matches(&self->toggles[k_], in)"),
                   Rule("D9.update_value", r"\boption\.second->update_value\(in\);", "toggle_update_value(&self->toggles[k_], in); NITRO_PROPAGATE;"),
                   Rule("D6.short-count", r"\bin\.as_short_list\(\)\.count\(option\.second->short_name\(\)\)", "toggle_short_count(in, base_short_name(&self->toggles[k_].b))")],
            must_fire=["D10.map-loop", "D9.matches", "D9.update_value"], extra_replace=["ui_as_short_list"], unwind=K + 1))
    # for_each_option(lambda): three loops over the declared kinds, the lambda spliced once per kind (rule D8)
    feo = src.find("include/nitro/options/parser.hpp", r"void for_each_option\(F f\)")
    kinds = re.findall(r"for \(auto& option : get_all_(options|multi_options|toggles)\(\)\)\s*\{\s*f\(\*option\.second\);\s*\}", feo["body"])
    if kinds != ["options", "multi_options", "toggles"]:
        raise ExtractionError("for_each_option no longer visits options, multi-options, toggles in this order: %r" % kinds)
    KINDS = [("opts", "n_opts", "option"), ("mopts", "n_mopts", "multi"), ("toggles", "n_toggles", "toggle")]

    # scalar data members of class parser that the model does not name (e.g. a cached flag added later): carried as extra fields
    pcls = src.text("include/nitro/options/parser.hpp")
    known = {"allowed_positionals_", "greedy_positionals_"}
    extra = [(t, n) for t, n in re.findall(r"^\s*(bool|int|unsigned|std::size_t|size_t)\s+(\w+_)\s*(?:=[^;]*)?;", pcls, re.M) if n not in known]
    if extra:
        u.extra_members["oparser"] = " ".join("%s %s;" % ({"bool": "nbool", "std::size_t": "size_t"}.get(t, t), n) for t, n in extra)
        u.static_facts.append("class parser has scalar data members outside the model, carried as unconstrained fields: " + ", ".join(n for _, n in extra))
    extra_rule = [Rule("D3.members", r"(?<![\w.>])(%s)\b" % "|".join(n for _, n in extra), r"self->\1")] if extra else []
    u.rules = u.rules + extra_rule

    def splice(fname, lam_re, per_kind):
        # the for_each_option(lambda) call is spliced per kind where it stands; whatever else the body holds is taken as it comes
        d = src.find(PAR, fname)
        body = re.sub(r"\s+", " ", d["body"]).strip()
        mm = re.search(lam_re.lstrip("^").rstrip("$"), body)
        if not mm:
            raise ExtractionError("%s: no for_each_option(lambda) call of the expected form in: %s" % (fname, body[:100]))
        out = []
        for arr, n, kind in KINDS:
            out.append("    for (size_t k_ = 0; k_ < self->%s; ++k_)\n    { %s }\n" % (n, per_kind(mm, arr, kind)))
        return "\n" + body[:mm.start()] + "\n" + "".join(out) + body[mm.end():] + "\n"
    for fn, member in [("prepare_options", "prepare"), ("validate_options", "check")]:
        text = splice(r"void parser::%s\(\)" % fn, r"^for_each_option\(\[\]\(auto& arg\) \{ arg\.%s\(\); \}\);$" % member,
                      lambda mm, arr, kind, member=member: "%s_%s(&self->%s[k_]);%s" % (kind, member, arr, " NITRO_PROPAGATE;" if member == "check" else ""))

        class Body:
            name = "D8.lambda-per-kind"

            def __init__(self, t):
                self.t = t

            def apply(self, _):
                return self.t, 1
        u.add(F("parser_" + fn, PAR, r"void parser::%s\(\)" % fn, "void parser_%s(struct oparser *self)" % fn, ["C03", "C04", "C14"] + (["C01", "C02"] if fn == "validate_options" else []), pre=[Body(text)], unwind=K + 1))
    cons = splice(r"void parser::check_parser_consistency\(\)",
                  r"^std::set<std::string> short_names; for_each_option\(\[&short_names\]\(auto& arg\) \{ if \(arg\.has_short_name\(\)\) \{ (?:auto \w+ = short_names\.emplace\(arg\.short_name\(\)\); if \(!\w+\.second\)|const bool \w+ = short_names\.emplace\(arg\.short_name\(\)\)\.second; if \(!\w+\)) \{ raise<parser_error>\(.*\); \} \} \}\);$",
                  lambda mm, arr, kind: "if (base_has_short_name(&self->%s[k_].b)) { nbool inserted = oletters_emplace(&short_names, base_short_name(&self->%s[k_].b)); if (!inserted) { NITRO_THROW(EXC_PARSER_ERROR); } }" % (arr, arr))

    class ConsBody:
        name = "D8.lambda-per-kind"

        def apply(self, _):
            return "\n    struct oletters short_names; oletters_init(&short_names);\n" + cons, 1
    u.add(F("parser_check_consistency", PAR, r"void parser::check_parser_consistency\(\)", "void parser_check_consistency(struct oparser *self)", ["C13", "C04", "C01"], pre=[ConsBody()], unwind=K + 1))
    for nm, sig, c in [("parser_greedy_postionals", r"void parser::greedy_postionals\(bool enabled\)", "void parser_greedy_postionals(struct oparser *self, nbool enabled)"),
                       ("parser_accept_positionals", r"void parser::accept_positionals\(std::size_t amount\)", "void parser_accept_positionals(struct oparser *self, size_t amount)")]:
        u.add(F(nm, PAR, sig, c, ["C12"], rules=[Rule("D3.members", r"(?<![\w.>])(greedy_positionals_|allowed_positionals_)\b", r"self->\1")]))
    u.shared_decls += "#define NITRO_K %d\n" % K
    # ---- parse(vector) and parse(argc, argv)
    NARGS = 3
    u.shared_decls += "#define NITRO_NARGS %d\n" % NARGS
    prov = splice(r"arguments parser::parse\(const std::vector<options::user_input>& args\)", r"^(.*)$", lambda mm, arr, kind: "") if False else None
    pd = src.find(PAR, r"arguments parser::parse\(const std::vector<options::user_input>& args\)")
    lam = re.search(r"for_each_option\(\[&provided\]\(auto& option\) \{\s*if \(option\.has_non_default\(\)\)\s*\{\s*provided\.insert\(option\.name\(\)\);\s*\}\s*\}\);", pd["body"])
    if not lam:
        raise ExtractionError("parse(): the `provided` loop is no longer for_each_option([&provided](auto& option){ if (option.has_non_default()) provided.insert(option.name()); })")
    prov_c = "".join("    for (size_t k_ = 0; k_ < self->%s; ++k_)\n    { if (base_has_non_default(&self->%s[k_].b)) { oprovided_insert(&provided, base_name(&self->%s[k_].b)); } }\n" % (n, arr, arr) for arr, n, kind in KINDS)
    parse_rules = [
        Rule("D8.provided-lambda", r"for_each_option\(\[&provided\]\(auto& option\) \{.*?\}\s*\}\);", prov_c.replace("\\", "\\\\"), flags=re.S),
        Rule("D6.member-call", r"(?<![\w.>:])(check_parser_consistency|prepare_options|validate_options)\(\);", lambda mm: "parser_%s(self); NITRO_PROPAGATE;" % {"check_parser_consistency": "check_consistency"}.get(mm.group(1), mm.group(1))),
        Rule("D7.vector-decl", r"std::vector<std::string>\s+positionals;", "struct ovec positionals; ovec_clear(&positionals);"),
        Rule("D7.set-decl", r"std::set<std::string>\s+provided;", "struct oprovided provided; oprovided_init(&provided);"),
        Rule("D10.vector-loop", r"for \(auto it = args\.begin\(\); it != args\.end\(\); \+\+it\)", "for (size_t it = 0; it != args->n; ++it)"),
        Rule("D4.guarded-disjunction", r"if \(try_parse_as_option\(get_all_options\(\), it, args\.end\(\)\) \|\|\s*try_parse_as_option\(get_all_multi_options\(\), it, args\.end\(\)\) \|\|\s*try_parse_as_toggle\(\*it\)\)",
             "nbool nitro_m = tpo_option(self->opts, self->n_opts, &it, args) || (!nitro_exc && tpo_multi(self->mopts, self->n_mopts, &it, args)) || (!nitro_exc && try_parse_as_toggle(self, &args->a[it])); NITRO_PROPAGATE;\n            if (nitro_m)"),
        Rule("D6.token-call", r"\bit->(is_value|is_double_dash)\(\)", r"ui_\1(&args->a[it])"),
        Rule("D7.vector-push", r"\bpositionals\.push_back\(it->data\(\)\);", "ovec_push_back(&positionals, ui_data(&args->a[it]));"),
        Rule("D7.vector-size", r"\bpositionals\.size\(\)", "positionals.count"),
        Rule("D3.rvo-ctor", r"return\s+arguments\(get_all_options\(\), get_all_multi_options\(\), get_all_toggles\(\), positionals,\s*provided\);", "ret->parser_ = self; ret->positionals_ = positionals; ret->provided_ = provided; return;"),
        Rule("D3.members", r"(?<![\w.>])(allowed_positionals_|greedy_positionals_)\b", r"self->\1"),
    ]
    u.add(F("parser_parse", PAR, r"arguments parser::parse\(const std::vector<options::user_input>& args\)", "void parser_parse(struct oarguments *ret, struct oparser *self, const struct oargs *args)", P3 + ["C03", "C11", "C14"],
            rules=parse_rules, must_fire=["D8.provided-lambda", "D10.vector-loop", "D4.guarded-disjunction", "D7.vector-push", "D3.rvo-ctor"],
            harness="""void h_parser_parse(void)
{
    struct oparser p; struct oargs a; struct oarguments r;
    NITRO_HAVOC;
    parser_parse(&r, &p, &a);
    NITRO_CANARIES;
}
"""))
    u.functions[-1].unwind = max(NARGS, K) + 1
    u.functions[-1].timeout = 1500
    # the two try_parse_as_option instantiations are inlined (their own contracts are verified separately): the iterator then
    # stays a concrete position along every path instead of becoming a symbolic pointer offset
    u.functions[-1].no_replace = ["base_has_non_default", "base_name", "base_has_short_name", "base_short_name", "base_has_env", "base_env", "tpo_option", "tpo_multi"]
    u.functions[-1].unwind_fns = ["tpo_option", "tpo_multi"]
    u.functions[-1].extra_replace = ["base_matches", "option_update_value", "multi_update_value", "ui_is_short", "ui_has_value", "ui_is_value", "ui_as_short_list"]
    # ---- parse(): prologue / loop body / epilogue as three functions (rule D11: the body of the token loop becomes a function whose
    # parameters are the loop-carried locals by reference; `continue` and falling off the end return STEP_NEXT)
    whole = None
    for f_ in u.functions:
        if f_.name == "parser_parse":
            whole = f_
    u.functions.remove(whole)

    class Split:
        def __init__(self, part):
            self.name, self.part = "D11.loop-split." + part, part

        def apply(self, text):
            from vf.extract import match_close
            m = re.search(r"for \(size_t it = 0; it != args->n; \+\+it\)\s*", text)
            if not m:
                raise ExtractionError("parse(): the token loop was not found after rewriting")
            ob = text.index("{", m.end())
            cb = match_close(text, ob)
            pro, body, epi = text[:m.start()], text[ob + 1:cb], text[cb + 1:]
            if self.part == "prologue":
                if not re.search(r"bool only_positionals_mode = false;\s*struct ovec positionals; ovec_clear\(&positionals\);\s*$", pro):
                    raise ExtractionError("parse(): the locals declared before the token loop changed: " + pro[-160:])
                pro = re.sub(r"bool only_positionals_mode = false;", "*mode_ref = false;", pro)
                pro = re.sub(r"struct ovec positionals; ovec_clear\(&positionals\);", "ovec_clear(positionals_ref);", pro)
                return pro, 1
            if self.part == "step":
                body = re.sub(r"\bcontinue;", "return STEP_NEXT;", body)
                body = re.sub(r"\bonly_positionals_mode\b", "(*mode_ref)", body)
                body = re.sub(r"&positionals\b", "positionals_ref", body)
                body = re.sub(r"\bpositionals\.", "positionals_ref->", body)
                body = re.sub(r"&it\b", "it_ref", body)
                body = re.sub(r"(?<![\w.>])it\b", "(*it_ref)", body)
                return body + "\n        return STEP_NEXT;\n", 1
            epi = re.sub(r"ret->positionals_ = positionals;", "ret->positionals_ = *positionals_ref;", epi)
            return epi, 1
    base_args = "struct oparser *self, const struct oargs *args"
    common_kw = dict(no_replace=["base_has_non_default", "base_name", "base_has_short_name", "base_short_name", "base_has_env", "base_env"])
    u.add(F("parser_parse_prologue", PAR, whole.sig, "void parser_parse_prologue(struct oparser *self, nbool *mode_ref, struct ovec *positionals_ref)", P3 + ["C13", "C14"],
            rules=parse_rules, unwind=K + 1, **common_kw))
    u.functions[-1].post = [Split("prologue")]
    u.add(F("parser_parse_step", PAR, whole.sig, "int parser_parse_step(%s, size_t *it_ref, nbool *mode_ref, struct ovec *positionals_ref)" % base_args, P3 + ["C11"],
            dflt="STEP_RAISED", rules=parse_rules, unwind=K + 1, no_replace=common_kw["no_replace"] + ["ui_data"]))
    u.functions[-1].post = [Split("step")]
    u.functions[-1].timeout = 1500
    u.functions[-1].cases = [("positional_or_dd", {"tpo_option": "nomatch", "tpo_multi": "nomatch"}, ["C01", "C02", "C04", "C12"]), ("option", {"tpo_multi": "nomatch"}, ["C01", "C02", "C04"]),
                             ("multi_option", {"tpo_option": "nomatch"}, ["C01", "C02", "C04"]), ("toggle_or_unknown", {"tpo_option": "nomatch", "tpo_multi": "nomatch"}, ["C01", "C02", "C04", "C11"])]
    for f_ in u.functions:
        if f_.name in ("tpo_option", "tpo_multi"):
            f_.alt_contracts = ["nomatch"]
    u.functions[-1].harness = """void h_parser_parse_step(void)
{
    struct oparser p; struct oargs a; nbool mode = nondet_nbool(); struct ovec positionals; size_t it = 0;
    NITRO_HAVOC;
    parser_parse_step(&p, &a, &it, &mode, &positionals);
    NITRO_CANARIES;
}
"""
    u.add(F("parser_parse_epilogue", PAR, whole.sig, "void parser_parse_epilogue(struct oarguments *ret, struct oparser *self, struct ovec *positionals_ref)", P3 + ["C03", "C14"],
            rules=parse_rules, unwind=K + 1, **common_kw))
    u.functions[-1].post = [Split("epilogue")]
    u.static_facts.append("parser::parse(vector) is `check_parser_consistency(); prepare_options(); <locals>; for (it over args) { BODY } validate_options(); <provided>; return arguments(...)`: "
                          "the three parts are verified as parser_parse_prologue / parser_parse_step (one execution of BODY) / parser_parse_epilogue; the for-header `++it` is part of the induction")
    # ---- arguments: positional access (C12: index -k addresses the k-th positional from the end)
    ARGH = "include/nitro/options/arguments.hpp"
    u.add(F("args_get_int", ARGH, r"const std::string& get\(int i\) const", "size_t args_get_int(const struct oarguments *self, int i)", ["C12"], dflt="0",
            rules=[Rule("D7.vector-size", r"\bpositionals_\.size\(\)", "self->positionals_.count"), Rule("D2.static-cast", r"static_cast<int>\(", "(int)("),
                   Rule("D7.vector-at", r"return positionals_\.at\(i\);", "{ size_t nitro_r = ovec_at(&self->positionals_, nitro_int_to_size(i)); NITRO_PROPAGATE; return nitro_r; }")],
            must_fire=["D7.vector-size", "D7.vector-at"]))
    u.add(F("args_index", ARGH, r"const std::string& operator\[\]\(int i\) const", "size_t args_index(const struct oarguments *self, int i)", ["C12"], dflt="0",
            rules=[Rule("D6.member-call", r"return get\(i\);", "{ size_t nitro_r = args_get_int(self, i); NITRO_PROPAGATE; return nitro_r; }")], must_fire=["D6.member-call"]))
    u.static_facts.append("arguments::get(int)/operator[] return a reference to the element; the extraction returns the element's POSITION in positionals_ (ovec_at), "
                          "the element itself being positionals_[position] by std::vector::at")
    # ---- parse(argc, argv): every argv word but the first becomes a user_input, in order (C12, C04)
    u.add(F("parser_parse_argv", PAR, r"arguments parser::parse\(int argc, const char\* const argv\[\]\)", "void parser_parse_argv(struct oarguments *ret, struct oparser *self, int argc, const struct ostr *argv)", ["C12", "C04", "C01"],
            rules=[Rule("D7.vector-decl", r"std::vector<options::user_input>\s+args;", "struct oargs args; args.n = 0;"),
                   # argv words as C strings: argv[1..argc-1] are never null ([basic.start.main]); the first byte is NUL iff the word is empty
                   Rule("D7.cstring-null", r"\bargv\[i\]\s*==\s*nullptr", "0"), Rule("D7.cstring-null", r"\bargv\[i\]\s*!=\s*nullptr", "1"),
                   Rule("D7.cstring-empty", r"\bargv\[i\]\[0\]\s*==\s*'\\0'", "(argv[i].len == 0)"), Rule("D7.cstring-empty", r"\bargv\[i\]\[0\]\s*!=\s*'\\0'", "(argv[i].len != 0)"),
                   Rule("D7.vector-emplace", r"\bargs\.emplace_back\(argv\[i\]\);", "ui_ctor(&args.a[args.n], &argv[i]); NITRO_PROPAGATE; ++args.n;"),
                   Rule("D3.rvo-call", r"return parse\(args\);", "parser_parse(ret, self, &args); NITRO_PROPAGATE; return;")],
            must_fire=["D7.vector-decl", "D7.vector-emplace", "D3.rvo-call"], unwind=NARGS + 2,
            harness="""void h_parser_parse_argv(void)
{
    struct oparser p; struct oarguments r; struct ostr argv[NITRO_NARGS + 1]; int argc = nondet_int();
    NITRO_HAVOC;
    parser_parse_argv(&r, &p, argc, argv);
    NITRO_CANARIES;
}
"""))
    u.stubs += ["parser_parse"]
    u.static_facts.append("parse(argc, argv): `const char*` argv words are std::string(argv[i]) (the text up to the terminating NUL); the vector is bounded by NITRO_NARGS words in the verification of this function")
    # ------------------------------------------------------------------ layer 4: declarations (C13)
    BASEH = "include/nitro/options/option/base.hpp"
    GRP = "src/options/group.cpp"
    u.add(F("crtp_short_name_set", BASEH, r"Option& short_name\(const std::string& short_name\)", "struct obase *crtp_short_name_set(struct obase *self, const struct ostr *short_name)", ["C13"], dflt="0",
            rules=[Rule("D7.string-empty", r"\bshort_\.empty\(\)", "(self->short_.len == 0)"), Rule("D7.string-ne", r"\bshort_ != short_name\b", "!ostr_eq_v(self->short_, *short_name)"),
                   Rule("D7.string-size", r"\bshort_name\.size\(\)", "short_name->len"), Rule("D7.string-assign", r"\bshort_ = short_name;", "self->short_ = *short_name;"),
                   Rule("D3.crtp-return", r"return \*static_cast<Option\*>\(this\);", "return self;"), Rule("D4.raise-arg", r"(?<![\w.>:])name\(\)", "0")],
            must_fire=["D7.string-empty", "D7.string-ne", "D7.string-size", "D7.string-assign", "D3.crtp-return"]))
    G = 2
    u.shared_decls += "#define NITRO_G %d\n" % G
    for kind, member, getter in [("options", "options_", "get_options"), ("multi_options", "multi_options_", "get_multi_options"), ("toggles", "toggles_", "get_toggles")]:
        elem = {"options": "option", "multi_options": "multi_option", "toggles": "toggle"}[kind]
        u.add(F("parser_get_all_" + kind, PAR, r"std::map<std::string, options::%s\*> parser::get_all_%s\(\) const" % (elem, kind), "void parser_get_all_%s(struct omapk *tmp, const struct oparser2 *self)" % kind, ["C13"],
                rules=[Rule("D3.rvo-local", r"std::map<std::string, options::%s\*>\s+tmp;" % elem, "omapk_init(tmp);"),
                       Rule("D10.map-loop", r"for \((?:auto|__auto_type)& (sg|group) : groups_\)", "for (size_t g_ = 0; g_ < self->n_groups; ++g_)"),
                       Rule("D6.getter", r"(?:auto|__auto_type)& (\w+) = (?:sg|group)\.second\.%s\(\);" % getter, r"const struct omapk *\1 = &self->groups[g_].%s;" % member),
                       Rule("D10.map-merge", r"for \((?:auto|__auto_type)& (\w+) : (\w+)\)\s*\{\s*tmp\.emplace\(\1\.first,\s*const_cast<options::%s\*>\(&\1\.second\)\);\s*\}" % elem, r"omapk_merge(tmp, \2);"),
                       Rule("D3.rvo-return", r"return\s+tmp;", "return;")],
                must_fire=["D3.rvo-local", "D10.map-loop", "D6.getter", "D10.map-merge", "D3.rvo-return"], unwind=G + 1))
    u.add(F("parser_has_option_with_name", PAR, r"bool parser::has_option_with_name\(const std::string& name\) const", "nbool parser_has_option_with_name(const struct oparser2 *self, const struct ostr *name)", ["C13"], dflt="0",
            rules=[Rule("D3.temporary-map", r"return\s+get_all_multi_options\(\)\.count\(name\) \+ get_all_options\(\)\.count\(name\) \+\s*get_all_toggles\(\)\.count\(name\);",
                        "{ struct omapk t1, t2, t3; parser_get_all_multi_options(&t1, self); parser_get_all_options(&t2, self); parser_get_all_toggles(&t3, self); "
                        "return (omapk_count(&t1, name) + omapk_count(&t2, name) + omapk_count(&t3, name)) != 0; }"),
                   # the same lookup written as a loop over the groups (other shapes of the body are taken as they come):
                   Rule("D10.map-loop", r"for \((?:const )?(?:auto|__auto_type)& (?:sg|group|g) : groups_\)", "for (size_t g_ = 0; g_ < self->n_groups; ++g_)"),
                   Rule("D3.reference-alias", r"(?:const )?(?:auto|__auto_type)& (\w+) = (?:sg|group|g)\.second;", r"const struct ogroup *\1 = &self->groups[g_];"),
                   Rule("D6.getter", r"\b(?:sg|group|g)\.second\.get_(options|multi_options|toggles)\(\)\.count\(name\)", r"omapk_count(&self->groups[g_].\1_, name)"),
                   Rule("D6.getter", r"\b(\w+)\.get_(options|multi_options|toggles)\(\)\.count\(name\)", r"omapk_count(&\1->\2_, name)")],
            must_fire=["D3.temporary-map|D10.map-loop"], unwind=G + 1, no_replace=["omapk_count"]))
    for fn, member in [("option", "options_"), ("multi_option", "multi_options_"), ("toggle", "toggles_")]:
        u.add(F("group_" + fn, GRP, r"options::%s& group::%s\(const std::string& name,\s*const std::string& description\)" % (fn, fn),
                "struct obase *group_%s(struct ogroup *self, const struct ostr *name, const struct ostr *description)" % fn, ["C13", "C15"], dflt="0",
                pre=[LocalName(r"(?:auto|__auto_type) (\w+) = %s\.emplace\(" % member, "res")],
                rules=[Rule("D6.parser-ref", r"\bparser_\.has_option_with_name\(name\)", "parser_has_option_with_name(self->parser_, name)"),
                       Rule("D7.map-count", r"\b%s\.count\(name\)" % member, "omapk_count(&self->%s, name)" % member),
                       Rule("D7.map-emplace", r"(?:auto|__auto_type) res = %s\.emplace\(std::piecewise_construct, std::forward_as_tuple\(name\),\s*std::forward_as_tuple\(name, description\)\);" % member,
                            "struct oemplaced res = omapk_emplace(&self->%s, name, description);" % member),
                       Rule("D7.vector-push", r"\border_\.push_back\(&\(?res\.first->second\)?\);", "oorder_push_back(&self->order_, res.first);"),
                       Rule("D3.map-return", r"return res\.first->second;", "return res.first;")],
                must_fire=["D6.parser-ref", "D7.map-count", "D7.map-emplace", "D7.vector-push", "D3.map-return"], no_replace=["omapk_count"],
                harness="""void h_group_%s(void)
{
    struct oparser2 p, q; struct ostr name, description; size_t gi = nondet_nbool() ? 1 : 0;
    NITRO_HAVOC;
    g_holder = &p;      /* the parser whose groups_ map holds the group; q: the object the group's back reference names after a move */
    p.groups[0].parser_ = nondet_nbool() ? &p : &q; p.groups[1].parser_ = p.groups[0].parser_;
    group_%s(&p.groups[gi], &name, &description);
    NITRO_CANARIES;
}
""" % (fn, fn)))
    u.trusted += ["BOUNDS of the options unit: K=2 declared options/multi-options/toggles per kind and G=2 groups (loops over the declaration maps are unwound completely, with unwinding assertions), "
                  "4 distinct letters per short token (others are counted together), <=3 argv words inside parse(argc, argv), toggle counts < 2^30, token length < 2^20, < 2^40 positionals/values; "
                  "the number of tokens of a command line is NOT bounded (loop body verified once for an arbitrary loop-carried state)",
                  "INDUCTION over the tokens of parse(vector) is a paper argument: prologue establishes the state invariant, parser_parse_step preserves it and agrees with the reference step function, "
                  "the epilogue ranks the sources; the for-header (`++it`, `it != end`) is read from the source by rule D11, not verified",
                  "A-shift: the token position is fixed to 0 in the contracts of try_parse_as_option and of the step; the extracted code uses the iterator only as it, it + 1 and end (any other use of `args` aborts the extraction)",
                  "A-text: format_padded is verified for texts of < 1024 words (keeps the int counter `space` in range)"]
    u.trusted += ["std::map<std::string, T> is modelled for ONE key, the name being declared (omapk: contains it or not, the mapped object, the number of entries): count/emplace/iteration+emplace as the standard says"]
    # ------------------------------------------------------------------ layer 5: usage text (C15)
    TERM = "include/nitro/io/terminal.hpp"
    u.add(F("format_padded", TERM, r"inline std::ostream& format_padded\(std::ostream& s, const std::string& in, int left_pad = 0,\s*int max_width = 80\)",
            "struct ostream_m *format_padded(struct ostream_m *s, const struct ostr *in, int left_pad, int max_width)", ["C15"], dflt="0",
            rules=[Rule("D7.stream-tellp", r"(?:auto|__auto_type) initial_indent = s\.tellp\(\);", "long initial_indent = os_tellp(s);"),
                   Rule("D7.stream-setw", r"\bs << std::setw\(left_pad - initial_indent\);", "os_setw(s, (int)(left_pad - initial_indent));"),
                   Rule("D10.range-for-temporary", r"for \((?:auto|__auto_type) word : nitro::lang::split\(in, \" \"\)\)\s*\{",
                        "struct owords nitro_words; lang_split_blank(&nitro_words, in);\n            for (size_t i_ = 0; i_ < nitro_words.n; ++i_)\n            { struct ostr word = owords_at(&nitro_words, i_);"),
                   Rule("D6.replace-tabs", r"nitro::lang::replace_all\(word, \"\\t\", \" \"\);", "oword_tabs_to_blanks(&word);"),
                   Rule("D7.string-size", r"\bword\.size\(\)", "word.len"),
                   Rule("D2.static-cast", r"static_cast<(?:std::)?size_t>\(", "nitro_int_to_size("), Rule("D2.static-cast", r"static_cast<int>\(", "(int)("),
                   Rule("D7.stream-put", r"\bs << ' ' << word;", "os_put_char(s); os_put_word(s, &word);"),
                   Rule("D7.stream-put", r"\bs << std::endl << std::setw\(left_pad\) << ' ' << word;", "os_endl(s); os_setw(s, left_pad); os_put_char(s); os_put_word(s, &word);"),
                   Rule("D7.stream-setw", r"\bs << std::setw\(0\);", "os_setw(s, 0);")],
            must_fire=["D7.stream-tellp", "D7.stream-setw", "D10.range-for-temporary", "D6.replace-tabs", "D7.stream-put"]))
    u.stubs += ["lang_split_blank", "owords_at"]
    u.add(F("group_empty", GRP, r"bool group::empty\(\) const", "nbool group_empty(const struct ogroup *self)", ["C15"], dflt="0",
            rules=[Rule("D7.map-empty", r"\b(options_|multi_options_|toggles_)\.empty\(\)", r"omapk_empty(&self->\1)")], must_fire=["D7.map-empty"]))
    u.add(F("group_usage", GRP, r"void group::usage\(std::ostream& s\) const", "void group_usage(const struct ogroup *self, struct ousage_stream *s)", ["C15"],
            rules=[Rule("D6.member-call", r"(?<![\w.>:])empty\(\)", "group_empty(self)"),
                   Rule("D7.stream-header", r"\bs << std::endl;", "ous_header(s);"),
                   Rule("D7.stream-header", r"\bs << name_ << \":\" << std::endl;", "ous_header(s);"),
                   Rule("D7.stream-header", r"\bs << std::endl << description_ << std::endl << std::endl;", "ous_header(s);"),
                   Rule("D7.string-empty", r"!description_\.empty\(\)", "nondet_nbool()"),
                   Rule("D10.vector-loop", r"for \((?:auto|__auto_type)& option : order_\)\s*option->format\(s\);",
                        "for (size_t i_ = 0; i_ < self->order_.count; ++i_)\n        { base_format(oorder_at(&self->order_, i_), s); }")],
            must_fire=["D6.member-call", "D10.vector-loop", "D7.stream-header"]))
    u.stubs += ["oorder_at", "base_format"]
    u.trusted += ["std::ostream is modelled by its formatting state (width), its column and a monitor of the property (ostream_m): operator<<(char), operator<<(string), setw, endl, tellp as the standard says; "
                  "lang::split(in, \" \") (C17, string unit) yields the words in order; replace_all(word, TAB, blank) keeps length and order (C17)"]
    # ---- which property each function's obligations are evidence for (a function is re-verified only under the properties whose
    # statement its contract carries; C01/C02/C04 are about the whole chain)
    CHAIN = ["C01", "C02", "C04"]
    PROPS = {
        "base_has_short_name": CHAIN + ["C11"], "base_has_env": ["C03", "C04", "C11"], "base_has_non_default": ["C03", "C04"], "base_short_name": CHAIN + ["C11"],
        "base_name": CHAIN + ["C11"], "base_env": ["C03", "C04", "C11"], "base_matches": CHAIN + ["C11"], "toggle_given": ["C11"], "toggle_update_value": CHAIN + ["C11"],
        "toggle_check": ["C03", "C04", "C11"], "toggle_matches": CHAIN + ["C11"], "option_update_value": CHAIN, "option_check": ["C02", "C03", "C04"], "multi_update_value": CHAIN,
        "multi_check": ["C02", "C03", "C04"], "tpo_option": CHAIN, "tpo_multi": CHAIN, "try_parse_as_toggle": CHAIN + ["C11"], "parser_prepare_options": ["C14"],
        "parser_validate_options": ["C02", "C03", "C04"], "parser_check_consistency": ["C13", "C04"], "parser_parse_prologue": CHAIN + ["C13", "C14"],
        "parser_parse_step": CHAIN + ["C11", "C12"], "parser_parse_epilogue": ["C02", "C03", "C04", "C12"], "parser_parse_argv": ["C04", "C12"],
    }
    # C03 presupposes the reset state of every parse; C14 needs, besides the reset, that NO function of a parse writes a declaration:
    # for the functions below only their frame (assigns) obligations count under C14
    for n_ in ("option_prepare", "multi_prepare", "toggle_prepare", "parser_prepare_options"):
        PROPS[n_] = ["C14", "C03"]
    FRAME_ONLY = ["option_check", "multi_check", "toggle_check", "parser_validate_options", "parser_parse_epilogue", "parser_parse_step", "option_update_value",
                  "multi_update_value", "toggle_update_value", "tpo_option", "tpo_multi", "try_parse_as_toggle"]
    for f_ in u.functions:
        if f_.name in PROPS:
            f_.props = list(PROPS[f_.name])
        if f_.name in FRAME_ONLY and "C14" not in f_.props:
            f_.props.append("C14")
            f_.only_for = {"C14": r"\.assigns\.|write_set|car_set"}
        if getattr(f_, "cases", None):
            f_.cases = [(c[0], c[1], c[2] + ["C14"]) for c in f_.cases]
    return u
