"""options unit: the command line parser (C01-C04, C11-C15).
Layer 1: user_input (token).  Layer 2: base/option/multi_option/toggle.  Layer 3: parser.
std::string := ostr (interned identity, length, first bytes, ghost coordinates of the substrings the parser takes);
std::multiset of letters := omset (total, count of the witness letter); maps of options := arrays of at most K entries in key order."""
import re
from vf.extract import Rule, CallRule, ExtractionError
from vf.unit import Unit, F, Lemma, ScopeEnd

UI = "include/nitro/options/user_input.hpp"
BASE = "include/nitro/options/option/base.hpp"
OPT = "src/options/option.cpp"
MOPT = "src/options/multi_option.cpp"
TOG = "src/options/toggle.cpp"
PAR = "src/options/parser.cpp"
GRP = "src/options/group.cpp"
UCLS = r"class\s+user_input\b"

TOKEN_REGEXES = {
    r'-{1,2}[^-=]+[^=]*=?.*': 1,            # '.' does not match line terminators
    r'-{1,2}[^-=]+[^=]*=?[\\s\\S]*': 0,
}
ALL_PARSE = ["C01", "C02", "C04", "C12"]


def raise_rules():
    return [CallRule("D4.raise-parsing", r"(?<![\w:])raise<parsing_error>\(", lambda m, a: "NITRO_THROW(EXC_PARSING_ERROR)"),
            CallRule("D4.raise-parser", r"(?<![\w:])raise<parser_error>\(", lambda m, a: "NITRO_THROW(EXC_PARSER_ERROR)")]


def build(src):
    u = Unit("options", src)
    u.rules = raise_rules() + [Rule("D2.auto", r"\bauto\b", "__auto_type"), Rule("D7.npos", r"std::string::npos", "NITRO_NPOS"), Rule("D7.size_t", r"std::size_t", "size_t")]
    # ------------------------------------------------------------------ layer 1: user_input
    mem = src.members(UI, UCLS)
    if [m[1] for m in mem] != ["arg_", "name_", "value_"]:
        raise ExtractionError("user_input members changed: %r" % mem)
    c = src.find(UI, r"user_input\(const std::string& arg\)", within=UCLS)
    if c["init"] != [("arg_", "arg")]:
        raise ExtractionError("user_input constructor initialisers changed: %r" % (c["init"],))
    m = re.search(r'std::regex_match\(arg,\s*std::regex\("((?:[^"\\]|\\.)*)"\)\)', c["body"])
    if not m or m.group(1) not in TOKEN_REGEXES:
        raise ExtractionError("user_input: unknown token regex literal %r (the stub knows %r)" % (m.group(1) if m else None, list(TOKEN_REGEXES)))
    dotflag = TOKEN_REGEXES[m.group(1)]
    u.static_facts.append("token pattern in user_input: %s (a '.' after the '=' excludes line terminators: %s)" % (m.group(1), bool(dotflag)))

    class CtorInit:
        name = "ctor.member-init"

        def apply(self, text):
            return ("\n    self->arg_ = *arg;                       /* arg_(arg) */\n    self->name_ = nitro_empty_ostr();        /* default-constructed */\n"
                    "    self->value_has = 0;                     /* empty optional */\n") + text, 1
    M = Rule("D3.members", r"(?<![\w.>])(arg_|name_|value_)\b", r"self->\1")
    ui_rules = [
        Rule("D7.string-find-eq", r"\barg_\.find\(\"=\"\)", "ostr_find_eq(&arg_)"),
        Rule("D7.substr-name", r"\bname_\s*=\s*arg_\.substr\(0,\s*sep\);", "name_ = ostr_name_part(&arg_, sep);"),
        Rule("D7.substr-value", r"\bvalue_\s*=\s*arg_\.substr\(sep \+ 1\);", "{ value_ = ostr_value_part(&arg_, sep + 1); self->value_has = 1; }"),
        Rule("D7.regex-token", r'std::regex_match\(arg,\s*std::regex\("(?:[^"\\]|\\.)*"\)\)', "ostr_regex_token(arg, %d)" % dotflag),
        Rule("D7.string-index", r"\b(name_|arg_)\[([012])\]", r"OSTR_AT\2(\1)"),
        Rule("D7.string-eq-dd", r"\barg_\s*==\s*\"--\"", "(arg_.id == OSTR_ID_DD)"),
        Rule("D7.string-size", r"\b(name_|arg_)\.size\(\)", r"\1.len"),
        Rule("D7.optional-bool", r"static_cast<bool>\(value_\)", "self->value_has"),
        Rule("D7.optional-deref", r"\*value_\b", "value_"),
        Rule("D6.starts-with-no", r"nitro::lang::starts_with\(name_,\s*\"--no-\"\)", "ostr_starts_with_no(&name_)"),
        Rule("D6.member-call", r"(?<![\w.>])(is_value|is_double_dash|is_short|is_named|is_argument|has_value|has_prefix)\(\)", r"ui_\1(self)"),
        Rule("D6.name-substr", r"return\s+name\(\)\.substr\(5\);", "{ const struct ostr *nitro_n = ui_name(self); NITRO_PROPAGATE; return ostr_suffix(nitro_n, 5); }"),
        Rule("D7.range-ctor", r"return\s*\{\s*name_\.begin\(\) \+ 2,\s*name_\.end\(\)\s*\};", "return ostr_suffix(&name_, 2);"),
        M,
    ]
    su = "struct user_input *self"
    csu = "const struct user_input *self"
    P1 = ["C01", "C02", "C04", "C11", "C12"]
    f = u.add(F("ui_ctor", UI, r"user_input\(const std::string& arg\)", "void ui_ctor(%s, const struct ostr *arg)" % su, P1, within=UCLS, pre=[CtorInit()], rules=ui_rules,
                must_fire=["D7.string-find-eq", "D7.substr-name", "D7.substr-value", "D7.regex-token"]))
    f.custom_init = True
    for nm in ["is_value", "is_double_dash", "is_short", "is_named", "is_argument", "has_value"]:
        u.add(F("ui_" + nm, UI, r"bool %s\(\) const noexcept" % nm, "nbool ui_%s(%s)" % (nm, csu), P1, within=UCLS, dflt="0", rules=ui_rules))
    u.add(F("ui_has_prefix", UI, r"bool has_prefix\(\) const", "nbool ui_has_prefix(%s)" % csu, P1, within=UCLS, dflt="0", rules=ui_rules, must_fire=["D6.starts-with-no"]))
    u.add(F("ui_data", UI, r"const std::string& data\(\) const noexcept", "const struct ostr *ui_data(%s)" % csu, P1, within=UCLS, dflt="0", ret_ref=True, rules=ui_rules))
    u.add(F("ui_name_without_prefix", UI, r"std::string name_without_prefix\(\) const", "struct ostr ui_name_without_prefix(%s)" % csu, P1, within=UCLS, dflt="nitro_empty_ostr()", rules=ui_rules, must_fire=["D6.name-substr"]))
    u.add(F("ui_name", UI, r"const std::string& name\(\) const", "const struct ostr *ui_name(%s)" % csu, P1, within=UCLS, dflt="0", ret_ref=True, rules=ui_rules))
    u.add(F("ui_value", UI, r"const std::string& value\(\) const", "const struct ostr *ui_value(%s)" % csu, P1, within=UCLS, dflt="0", ret_ref=True, rules=ui_rules))
    u.add(F("ui_as_short_list", UI, r"std::multiset<std::string> as_short_list\(\) const", "void ui_as_short_list(struct omset *result, %s)" % csu, P1, within=UCLS,
            rules=[Rule("D3.rvo-local", r"std::multiset<std::string>\s+result;", "omset_init(result);"),
                   Rule("D7.multiset-emplace", r"\bresult\.emplace\(1,\s*arg_\[i\]\);", "omset_emplace_char(result, ostr_at(&arg_, i));"),
                   Rule("D3.rvo-return", r"return\s+result;", "return;")] + ui_rules,
            must_fire=["D3.rvo-local", "D7.multiset-emplace", "D3.rvo-return"]))
    u.add(F("ui_as_named", UI, r"std::string as_named\(\) const", "struct ostr ui_as_named(%s)" % csu, P1, within=UCLS, dflt="nitro_empty_ostr()", rules=ui_rules, must_fire=["D7.range-ctor"]))
    u.stubs = ["ostr_name_part", "ostr_value_part", "ostr_suffix", "ostr_regex_token", "ostr_at"]
    u.trusted = [
        "extraction rules D1-D10: std::string := ostr (interned identity, length, first three bytes, position of the first '=', identities of the substrings taken from it)",
        "std::string::find(\"=\") / substr / operator[] / ==, std::multiset::emplace/count behave as the C++ standard says (ostr/omset stubs)",
        "std::regex_match with the token pattern accepts exactly: one or two dashes followed by a byte that is neither '-' nor '=' (structural reading of the literal, which is checked on every run); regex stack depth and allocation failure are not modelled",
    ]
    # ------------------------------------------------------------------ layer 2: base / option / multi_option / toggle
    P2 = ["C01", "C02", "C03", "C04", "C11", "C14"]
    TRUTHY = ["TRUE", "ON", "YES", "true", "on", "yes", "1", "Y", "with", "True", "On", "WITH", "With", "y", "Yes"]
    FALSY = ["false", "FALSE", "without", "0", "NO", "no", "Without", "n", "off", "OFF", "N", "False", "Off", "WITHOUT", "No"]
    VOCAB = {w: 16 + i for i, w in enumerate(TRUTHY)}
    VOCAB.update({w: 32 + i for i, w in enumerate(FALSY)})
    unknown_words = []

    def word_id(mm):
        w = mm.group(2)
        if w in VOCAB:
            return "(%s.id == %d /* \"%s\" */)" % (mm.group(1), VOCAB[w], w)
        if w not in unknown_words:
            unknown_words.append(w)
        return "(%s.id == %d /* \"%s\": not in the documented vocabulary */)" % (mm.group(1), 1000 + unknown_words.index(w), w)
    BM = Rule("D3.members", r"(?<![\w.>])(name_|short_|env_|dirty_|value_|default_|is_optional_|given_|reversable_)\b", r"self->\1")
    base_calls = [Rule("D6.base-member-call", r"(?<![\w.>:])(has_short_name|short_name|name|has_env|env|has_non_default|given)\(\)", r"base_\1(self)"),
                  ]
    arg_calls = [Rule("D6.token-call", r"\barg\.(is_argument|is_short|is_named|has_value|has_prefix|is_value)\(\)", r"ui_\1(arg)"),
                 Rule("D6.token-call-value", r"\barg\.value\(\)", "(*ui_value(arg))"),
                 ]
    sb = "const struct obase *self"
    # base observers
    for nm, ret, expr in [("has_short_name", "nbool", None), ("has_env", "nbool", None), ("has_non_default", "nbool", None)]:
        u.add(F("base_" + nm, BASE, r"bool %s\(\) const" % nm, "nbool base_%s(%s)" % (nm, sb), P2, within=r"class\s+base\b", dflt="0",
                rules=[Rule("D7.string-empty", r"!(short_|env_)\.empty\(\)", r"(\1.len != 0)"), BM]))
    for nm in ["short_name", "name", "env"]:
        u.add(F("base_" + nm, BASE, r"const std::string& %s\(\) const" % nm, "const struct ostr *base_%s(%s)" % (nm, sb), P2, within=r"class\s+base\b", dflt="0", ret_ref=True, rules=[BM]))
    u.add(F("base_matches", BASE, r"virtual bool matches\(const user_input& arg\) const", "nbool base_matches(%s, const struct user_input *arg)" % sb, P2, within=r"class\s+base\b", dflt="0",
            rules=[Rule("D3.multiset-local", r"__auto_type list = arg\.as_short_list\(\);", "struct omset list; ui_as_short_list(&list, arg); NITRO_PROPAGATE;"),
                   Rule("D7.multiset-size", r"\blist\.size\(\)", "list.total"),
                   Rule("D7.multiset-count", r"\blist\.count\(base_short_name\(self\)\)", "omset_count(&list, base_short_name(self))"),
                   Rule("D6.named-eq", r"\barg\.as_named\(\)\s*==\s*base_name\(self\)", "ostr_eq_v(ui_as_named(arg), *base_name(self))")] ,
            pre=[Rule("D2.auto", r"\bauto\b", "__auto_type")] + arg_calls + base_calls,
            must_fire=["D3.multiset-local", "D7.multiset-count", "D6.named-eq"]))
    # toggle
    st = "struct otoggle *self"
    cst = "const struct otoggle *self"
    TB = [Rule("D6.base-member-call", r"(?<![\w.>:])(has_short_name|short_name|name|has_env|env|has_non_default)\(\)", r"base_\1(&self->b)"),
          Rule("D6.own-member-call", r"(?<![\w.>:])given\(\)", "toggle_given(self)"),
          Rule("D3.base-members", r"(?<![\w.>])(dirty_|env_|short_)\b", r"self->b.\1"),
          Rule("D3.members", r"(?<![\w.>])(given_|default_|reversable_)\b", r"self->\1")]
    u.add(F("toggle_given", TOG, r"int toggle::given\(\) const", "int toggle_given(%s)" % cst, P2, dflt="0", rules=TB))
    u.add(F("toggle_is_reversible", TOG, r"bool toggle::is_reversible\(\) const", "nbool toggle_is_reversible(%s)" % cst, ["C11"], dflt="0", rules=TB))
    u.add(F("toggle_allow_reverse", TOG, r"toggle& toggle::allow_reverse\(\)", "struct otoggle *toggle_allow_reverse(%s)" % st, ["C11"], dflt="0", ret_ref=True, rules=[Rule("D3.this", r"\*this\b", "(*self)")] + TB))
    u.add(F("toggle_default_value_bool", TOG, r"toggle& toggle::default_value\(bool def\)", "struct otoggle *toggle_default_value_bool(%s, nbool def)" % st, ["C11"], dflt="0", ret_ref=True, rules=[Rule("D3.this", r"\*this\b", "(*self)")] + TB))
    u.add(F("toggle_default_value_int", TOG, r"toggle& toggle::default_value\(int def\)", "struct otoggle *toggle_default_value_int(%s, int def)" % st, ["C11"], dflt="0", ret_ref=True, rules=[Rule("D3.this", r"\*this\b", "(*self)")] + TB))
    u.add(F("toggle_parse_env_value", TOG, r"bool toggle::parse_env_value\(const std::string& env_value\)", "nbool toggle_parse_env_value(const struct ostr *env_value_p)", ["C03", "C04", "C11"], dflt="0",
            pre=[Rule("D3.refparam", r"\benv_value\b", "(*env_value_p)"), Rule("D7.string-eq-literal", r"(\(\*env_value_p\))\s*==\s*\"([^\"]*)\"", word_id)],
            must_fire=["D7.string-eq-literal"]))
    u.add(F("toggle_update_value", TOG, r"void toggle::update_value\(const user_input& arg\)", "void toggle_update_value(%s, const struct user_input *arg)" % st, P2,
            pre=arg_calls, rules=[Rule("D3.short-count", r"\barg\.as_short_list\(\)\.count\(short_name\(\)\)", "toggle_short_count(arg, base_short_name(&self->b))")] + TB,
            must_fire=["D3.short-count"], extra_replace=["ui_as_short_list"]))
    u.add(F("toggle_prepare", TOG, r"void toggle::prepare\(\)", "void toggle_prepare(%s)" % st, ["C14"], rules=TB))
    u.add(F("toggle_check", TOG, r"void toggle::check\(\)", "void toggle_check(%s)" % st, ["C03", "C04", "C11", "C14"],
            rules=[Rule("D7.env-get", r"nitro::env::get\((?:env\(\)|base_env\(&self->b\))\)", "nitro_env_get(base_env(&self->b))"),
                   Rule("D7.string-empty", r"!env_value\.empty\(\)", "(env_value.len != 0)"),
                   Rule("D6.parse_env_value", r"\bparse_env_value\(env_value\)", "toggle_parse_env_value(&env_value)"),
                   Rule("D4.propagate-assign", r"(?m)^(\s*)given_ = (toggle_parse_env_value\([^;]*\));", r"\1{ nbool nitro_b = \2; NITRO_PROPAGATE; given_ = nitro_b; }")] + TB,
            pre=[Rule("D2.auto", r"\bauto\b", "struct ostr")], must_fire=["D7.env-get", "D6.parse_env_value"]))
    u.add(F("toggle_matches", TOG, r"bool toggle::matches\(const user_input& arg\) const", "nbool toggle_matches(%s, const struct user_input *arg)" % cst, P2, dflt="0",
            pre=arg_calls, rules=[Rule("D6.noprefix-eq", r"\barg\.name_without_prefix\(\)\s*==\s*name\(\)", "ostr_eq_v(ui_name_without_prefix(arg), *base_name(&self->b))"),
                                  Rule("D6.base-call", r"\bbase::matches\(arg\)", "base_matches(&self->b, arg)")] + TB,
            must_fire=["D6.noprefix-eq", "D6.base-call"]))
    # option
    so = "struct ooption *self"
    OB = [Rule("D6.base-member-call", r"(?<![\w.>:])(has_short_name|short_name|name|has_env|env|has_non_default)\(\)", r"base_\1(&self->b)"),
          Rule("D7.optional-deref", r"\(\*(value_|default_)\)\.empty\(\)", r"(self->\1.len == 0)"),
          Rule("D7.optional-bool", r"(\(|&&|\|\||!)\s*(value_|default_)\s*(?=\)|&&|\|\|)", r"\1 self->\2has "),
          Rule("D7.optional-bool", r"static_cast<bool>\((value_|default_)\)", r"self->\1has"),
          Rule("D7.optional-assign", r"\bvalue_\s*=\s*lang::optional<std::string>\(\);", "self->value_has = 0;"),
          Rule("D7.optional-assign", r"\bvalue_\s*=\s*\*default_;", "{ self->value_ = self->default_; self->value_has = 1; }"),
          Rule("D7.optional-assign", r"\bvalue_\s*=\s*env_value;", "{ self->value_ = env_value; self->value_has = 1; }"),
          Rule("D7.optional-assign", r"\bvalue_\s*=\s*\(\*ui_value\(arg\)\);", "{ const struct ostr *nitro_v = ui_value(arg); NITRO_PROPAGATE; self->value_ = *nitro_v; self->value_has = 1; }"),
          Rule("D7.env-get", r"nitro::env::get\((?:env\(\)|base_env\(&self->b\))\)", "nitro_env_get(base_env(&self->b))"),
          Rule("D7.string-empty", r"!env_value\.empty\(\)", "(env_value.len != 0)"),
          Rule("D3.base-members", r"(?<![\w.>])(dirty_|env_|short_)\b", r"self->b.\1"),
          Rule("D3.members", r"(?<![\w.>])(is_optional_)\b", r"self->\1")]
    u.add(F("option_update_value", OPT, r"void option::update_value\(const user_input& arg\)", "void option_update_value(%s, const struct user_input *arg)" % so, P2, pre=arg_calls, rules=OB))
    u.add(F("option_prepare", OPT, r"void option::prepare\(\)", "void option_prepare(%s)" % so, ["C14"], rules=OB))
    u.add(F("option_check", OPT, r"void option::check\(\)", "void option_check(%s)" % so, ["C03", "C04", "C14"], pre=[Rule("D2.auto", r"\bauto\b", "struct ostr")] + arg_calls, rules=OB, must_fire=["D7.env-get"]))
    u.add(F("option_get", OPT, r"const std::string& option::get\(\) const", "const struct ostr *option_get(const struct ooption *self)", ["C02"], dflt="0", ret_ref=True, rules=[Rule("D7.optional-deref", r"\*value_\b", "self->value_")]))
    # multi_option
    sm = "struct omulti *self"
    MB = [Rule("D6.base-member-call", r"(?<![\w.>:])(has_short_name|short_name|name|has_env|env|has_non_default)\(\)", r"base_\1(&self->b)"),
          Rule("D7.vector-empty", r"\bvalue_\.empty\(\)", "(self->value_.count == 0)"),
          Rule("D7.vector-clear", r"\bvalue_\.clear\(\);", "ovec_clear(&self->value_);"),
          Rule("D7.vector-push", r"\bvalue_\.push_back\(\(\*ui_value\(arg\)\)\);", "{ const struct ostr *nitro_v = ui_value(arg); NITRO_PROPAGATE; ovec_push_back(&self->value_, nitro_v); }"),
          Rule("D7.vector-push", r"\bvalue_\.push_back\(element\);", "ovec_push_back(&self->value_, &element);"),
          Rule("D7.vector-assign", r"\bvalue_\s*=\s*\*default_;", "self->value_ = self->default_;"),
          Rule("D7.optional-bool", r"\bif\s*\(\s*default_\s*\)", "if (self->default_has)"),
          Rule("D7.env-get", r"nitro::env::get\((?:env\(\)|base_env\(&self->b\))\)", "nitro_env_get(base_env(&self->b))"),
          Rule("D7.string-empty", r"!env_value\.empty\(\)", "(env_value.len != 0)"),
          Rule("D7.getline-split", r"std::string element;\s*std::stringstream str;\s*str << env_value;", "struct ostr element; struct ogetline str; ogetline_init(&str, &env_value);"),
          Rule("D7.getline", r"std::getline\(str,\s*element,\s*';'\)", "ogetline_next(&str, &element)"),
          Rule("D7.vector-index", r"\bvalue_\[i\]", "(*ovec_at(&self->value_, i))"),
          Rule("D7.vector-size", r"\bvalue_\.size\(\)", "self->value_.count"),
          Rule("D3.base-members", r"(?<![\w.>])(dirty_|env_|short_)\b", r"self->b.\1"),
          Rule("D3.members", r"(?<![\w.>])(is_optional_)\b", r"self->\1")]
    u.add(F("multi_update_value", MOPT, r"void multi_option::update_value\(const user_input& arg\)", "void multi_update_value(%s, const struct user_input *arg)" % sm, P2, pre=arg_calls, rules=MB, must_fire=["D7.vector-push"]))
    u.add(F("multi_prepare", MOPT, r"void multi_option::prepare\(\)", "void multi_prepare(%s)" % sm, ["C14"], rules=MB))
    u.add(F("multi_check", MOPT, r"void multi_option::check\(\)", "void multi_check(%s)" % sm, ["C03", "C04", "C14"], pre=[Rule("D2.auto", r"\bauto\b", "struct ostr")], rules=MB, must_fire=["D7.env-get", "D7.getline"]))
    u.add(F("multi_count", MOPT, r"std::size_t multi_option::count\(\) const", "size_t multi_count(const struct omulti *self)", ["C02"], dflt="0", rules=MB))
    u.static_facts.append("toggle::parse_env_value compares against %d string literals; %d of them are outside the documented vocabulary: %r" % (0, 0, []))
    u._unknown_words = unknown_words
    u.stubs += ["nitro_env_get", "ovec_push_back", "ogetline_next"]
    u.trusted += [
        "nitro::env::get(name) (verified in the envdl unit, C19) is used through its contract: the value of the variable, or the empty string when unset",
        "std::getline(stream, element, ';') yields the ';'-separated pieces in order and no final empty piece (ogetline stub); std::vector::push_back/clear/operator= as the standard says",
        "the 30 environment words of a toggle are fixed in the contract from the documented vocabulary; every other string literal the code compares with is a different word",
    ]
    # ------------------------------------------------------------------ layer 3: parser
    P3 = ["C01", "C02", "C04", "C12"]
    K = 2       # declarations per kind (DESIGN.md 4.1); arrays in key order
    it_rules = [Rule("D3.iterator-deref", r"\*it\b", "(*it_ref)"), Rule("D3.iterator-arrow", r"\bit->", "(*it_ref)->"),
                Rule("D3.iterator-next", r"\bit \+ 1\b", "(*it_ref) + 1"), Rule("D3.iterator-inc", r"\+\+it\b", "++(*it_ref)")]
    tok_calls = [Rule("D6.token-call", r"\(\*it_ref\)->(is_short|has_value|is_value|is_double_dash|is_named)\(\)", r"ui_\1((*it_ref))"),
                 Rule("D6.token-call", r"\bnext->(is_value)\(\)", r"ui_\1(next)"),
                 Rule("D6.token-call", r"\bin\.(is_short)\(\)", r"ui_\1(in)"),
                 Rule("D6.short-total", r"\(\*it_ref\)->as_short_list\(\)\.size\(\)", "ui_short_total((*it_ref))"),
                 Rule("D6.short-total", r"\bin\.as_short_list\(\)\.size\(\)", "ui_short_total(in)"),
                 Rule("D6.token-data", r"\(\*it_ref\)->data\(\)", "ui_data((*it_ref))"), Rule("D6.token-data", r"\bin\.data\(\)", "ui_data(in)")]
    for nm, kind, upd in [("tpo_option", "ooption", "option_update_value"), ("tpo_multi", "omulti", "multi_update_value")]:
        u.add(F(nm, PAR, r"bool parser::try_parse_as_option\(Options&& options, Iter& it, Iter end\)",
                "nbool %s(struct %s *options, size_t n_options, const struct user_input **it_ref, const struct user_input *end)" % (nm, kind), P3 + ["C03", "C11"], dflt="0",
                pre=[Rule("D2.auto", r"\bauto\b", "__auto_type")] + it_rules + tok_calls,
                rules=[Rule("D10.map-loop", r"for \(__auto_type& option : options\)", "for (size_t k_ = 0; k_ < n_options; ++k_)"),
                       Rule("D9.matches", r"\boption\.second->matches\(\(\*it_ref\)\)", "base_matches(&options[k_].b, (*it_ref))"),
                       Rule("D9.update_value", r"\boption\.second->update_value\((\(\*it_ref\)|\*next)\);", lambda mm, upd=upd: "%s(&options[k_], %s); NITRO_PROPAGATE;" % (upd, "next" if "next" in mm.group(1) else "(*it_ref)")),
                       Rule("D3.local-iterator", r"__auto_type next =", "const struct user_input *next ="),
                       Rule("D4.raise-arg", r"\boption\.second->name\(\)", "0")],
                must_fire=["D10.map-loop", "D9.matches", "D9.update_value"], unwind=K + 1, extra_replace=["ui_as_short_list"],
                harness="""void h_%s(void)
{
    struct %s options[NITRO_K]; struct user_input toks[2]; size_t n_options = nondet_size_t();
    const struct user_input *it = &toks[0];
    const struct user_input *end = nondet_nbool() ? &toks[1] : (&toks[1]) + 1;
    NITRO_HAVOC;
    %s(options, n_options, &it, end);
    NITRO_CANARIES;
}
""" % (nm, kind, nm)))
    u.add(F("try_parse_as_toggle", PAR, r"bool parser::try_parse_as_toggle\(const user_input& in\)", "nbool try_parse_as_toggle(struct oparser *self, const struct user_input *in)", P3 + ["C11"], dflt="0",
            pre=[Rule("D2.auto", r"\bauto\b", "__auto_type")] + tok_calls,
            rules=[Rule("D10.map-loop", r"for \(__auto_type& option : get_all_toggles\(\)\)", "for (size_t k_ = 0; k_ < self->n_toggles; ++k_)"),
                   Rule("D9.matches", r"\boption\.second->matches\(in\)", "toggle_matches(&self->toggles[k_], in)"),
                   Rule("D9.update_value", r"\boption\.second->update_value\(in\);", "toggle_update_value(&self->toggles[k_], in); NITRO_PROPAGATE;"),
                   Rule("D6.short-count", r"\bin\.as_short_list\(\)\.count\(option\.second->short_name\(\)\)", "toggle_short_count(in, base_short_name(&self->toggles[k_].b))")],
            must_fire=["D10.map-loop", "D9.matches", "D9.update_value"], extra_replace=["ui_as_short_list"], unwind=K + 1))
    # for_each_option(lambda): three loops over the declared kinds, the lambda spliced once per kind (rule D8)
    feo = src.find("include/nitro/options/parser.hpp", r"void for_each_option\(F f\)")
    kinds = re.findall(r"for \(auto& option : get_all_(options|multi_options|toggles)\(\)\)\s*\{\s*f\(\*option\.second\);\s*\}", feo["body"])
    if kinds != ["options", "multi_options", "toggles"]:
        raise ExtractionError("for_each_option no longer visits options, multi-options, toggles in this order: %r" % kinds)
    KINDS = [("opts", "n_opts", "option"), ("mopts", "n_mopts", "multi"), ("toggles", "n_toggles", "toggle")]

    def splice(fname, lam_re, per_kind):
        d = src.find(PAR, fname)
        body = re.sub(r"\s+", " ", d["body"]).strip()
        mm = re.match(lam_re, body)
        if not mm:
            raise ExtractionError("%s: body is no longer one for_each_option(lambda) call: %s" % (fname, body[:100]))
        out = []
        for arr, n, kind in KINDS:
            out.append("    for (size_t k_ = 0; k_ < self->%s; ++k_)\n    { %s }\n" % (n, per_kind(mm, arr, kind)))
        return "\n" + "".join(out)
    for fn, member in [("prepare_options", "prepare"), ("validate_options", "check")]:
        text = splice(r"void parser::%s\(\)" % fn, r"^for_each_option\(\[\]\(auto& arg\) \{ arg\.%s\(\); \}\);$" % member,
                      lambda mm, arr, kind, member=member: "%s_%s(&self->%s[k_]);%s" % (kind, member, arr, " NITRO_PROPAGATE;" if member == "check" else ""))

        class Body:
            name = "D8.lambda-per-kind"

            def __init__(self, t):
                self.t = t

            def apply(self, _):
                return self.t, 1
        u.add(F("parser_" + fn, PAR, r"void parser::%s\(\)" % fn, "void parser_%s(struct oparser *self)" % fn, ["C03", "C04", "C14"] + (["C01", "C02"] if fn == "validate_options" else []), pre=[Body(text)], unwind=K + 1))
    cons = splice(r"void parser::check_parser_consistency\(\)",
                  r"^std::set<std::string> short_names; for_each_option\(\[&short_names\]\(auto& arg\) \{ if \(arg\.has_short_name\(\)\) \{ auto res = short_names\.emplace\(arg\.short_name\(\)\); if \(!res\.second\) \{ raise<parser_error>\(.*\); \} \} \}\);$",
                  lambda mm, arr, kind: "if (base_has_short_name(&self->%s[k_].b)) { nbool inserted = oletters_emplace(&short_names, base_short_name(&self->%s[k_].b)); if (!inserted) { NITRO_THROW(EXC_PARSER_ERROR); } }" % (arr, arr))

    class ConsBody:
        name = "D8.lambda-per-kind"

        def apply(self, _):
            return "\n    struct oletters short_names; oletters_init(&short_names);\n" + cons, 1
    u.add(F("parser_check_consistency", PAR, r"void parser::check_parser_consistency\(\)", "void parser_check_consistency(struct oparser *self)", ["C13", "C04", "C01"], pre=[ConsBody()], unwind=K + 1))
    for nm, sig, c in [("parser_greedy_postionals", r"void parser::greedy_postionals\(bool enabled\)", "void parser_greedy_postionals(struct oparser *self, nbool enabled)"),
                       ("parser_accept_positionals", r"void parser::accept_positionals\(std::size_t amount\)", "void parser_accept_positionals(struct oparser *self, size_t amount)")]:
        u.add(F(nm, PAR, sig, c, ["C12"], rules=[Rule("D3.members", r"(?<![\w.>])(greedy_positionals_|allowed_positionals_)\b", r"self->\1")]))
    u.shared_decls += "#define NITRO_K %d\n" % K
    return u
