/* Contracts for the option parser (C01-C04, C11-C15). */
#ifndef OPTIONS_CONTRACTS_H
#define OPTIONS_CONTRACTS_H
#include "nitro_rt.h"
#include "nitro_opt.h"
#include "kf_gen.h"
#include "enf_gen.h"
/* Specification expressions in this file dereference only pointers that the preconditions made valid (is_fresh / r_ok);
 * pointer checks are switched off for the SPEC TEXT (never for the extracted code) because they dominated symbolic execution. */
#pragma CPROVER check push
#pragma CPROVER check disable "pointer"
#pragma CPROVER check disable "pointer-overflow"
#pragma CPROVER check disable "bounds"
#define NITRO_UNIT_GLOBALS NITRO_OPT_GLOBALS
#define NITRO_HAVOC_UNIT NITRO_OPT_HAVOC
#define O_OBJ(p) __CPROVER_is_fresh(p, sizeof(*(p)))
#define O_OBJ_OR_ROK(fn, p) ((NITRO_ENF_##fn && O_OBJ(p)) || (!NITRO_ENF_##fn && __CPROVER_r_ok(p, sizeof(*(p)))))
#define O_OBJ_OR_OK(fn, p) ((NITRO_ENF_##fn && O_OBJ(p)) || (!NITRO_ENF_##fn && __CPROVER_rw_ok(p, sizeof(*(p)))))
static inline struct ostr nitro_empty_ostr(void)
{
    struct ostr s; s.id = OSTR_ID_EMPTY; s.len = 0; s.b0 = 0; s.b1 = 0; s.b2 = 0; s.eq = NITRO_NPOS; s.nl_after_eq = 0;
    s.name_id = OSTR_ID_EMPTY; s.name_sub2_id = 0; s.name_sub5_id = 0; s.value_id = 0; s.name_has_no = 0; s.lcount[0] = 0; s.lcount[1] = 0; s.lcount[2] = 0; s.lcount[3] = 0; s.lother = 0; return s;
}

/* ======================= layer 1: user_input, one command line token ======================= */
struct user_input { struct ostr arg_; struct ostr name_; nbool value_has; struct ostr value_; };
/* the token grammar, as predicates over the TEXT of the token (a = pointer to its ostr) */
#define T_NAMELEN(a) OSTR_NAMELEN(a)
#define T_VALUE(a) (T_NAMELEN(a) == 0 || (a)->b0 != '-')                                  /* does not start with a dash: a value / positional */
#define T_DD(a) ((a)->id == OSTR_ID_DD)                                                   /* exactly "--" */
#define T_SHORT(a) (T_NAMELEN(a) > 1 && (a)->b0 == '-' && (a)->b1 != '-')                 /* -x, -xyz, -x=v */
#define T_NAMED(a) (T_NAMELEN(a) > 2 && (a)->b0 == '-' && (a)->b1 == '-' && (a)->b2 != '-')   /* --name, --name=v */
#define T_HAS_VALUE(a) (T_VALUE(a) || (a)->eq != NITRO_NPOS)
#define T_MALFORMED(a) (!T_VALUE(a) && !T_DD(a) && !OSTR_TOKEN_SHAPE(a))                  /* -, ---x, -=x, --=x, ... */
/* representation invariant of a constructed user_input: name_ / value_ are the parts of arg_ (evaluated on a copy) */
static inline nbool ui_wf_v(struct user_input u)
{
    return ostr_wf_v(u.arg_) && u.name_.id == u.arg_.name_id && u.name_.len == OSTR_NAMELEN_V(u.arg_) && u.name_.eq == NITRO_NPOS &&
        u.name_.b0 == u.arg_.b0 && u.name_.b1 == u.arg_.b1 && u.name_.b2 == u.arg_.b2 && u.name_.name_sub2_id == u.arg_.name_sub2_id &&
        u.name_.name_sub5_id == u.arg_.name_sub5_id && u.name_.name_has_no == u.arg_.name_has_no && OSTR_SAME_LETTERS(u.name_, u.arg_) &&
        u.value_has == (u.arg_.eq != NITRO_NPOS) && (!u.value_has || (u.value_.id == u.arg_.value_id && u.value_.len == u.arg_.len - u.arg_.eq - 1));
}
#define UI_WF(u) ui_wf_v(*(u))
#define UI_PRE(fn, u) (nitro_exc == 0 && O_OBJ_OR_ROK(fn, u) && UI_WF(u))

void ui_ctor(struct user_input *self, const struct ostr *arg)
__CPROVER_requires(nitro_exc == 0 && O_OBJ_OR_OK(ui_ctor, self) && O_OBJ_OR_ROK(ui_ctor, arg) && OSTR_WF(arg))
__CPROVER_assigns(*self, nitro_exc)
__CPROVER_ensures(T_MALFORMED(arg) == (nitro_exc != 0))                                          /*@ raises_iff_malformed_dash_token */
__CPROVER_ensures(nitro_exc == 0 || nitro_exc == EXC_PARSING_ERROR)                               /*@ only_the_user_input_error */
__CPROVER_ensures(nitro_exc == 0 ==> (self->arg_.id == arg->id && self->arg_.len == arg->len && self->arg_.eq == arg->eq && self->arg_.b0 == arg->b0 && self->arg_.b1 == arg->b1 && self->arg_.b2 == arg->b2 && \
                  self->arg_.name_id == arg->name_id && self->arg_.value_id == arg->value_id && self->arg_.name_sub2_id == arg->name_sub2_id && self->arg_.name_sub5_id == arg->name_sub5_id && \
                  self->arg_.name_has_no == arg->name_has_no && OSTR_SAME_LETTERS(self->arg_, *arg) && self->arg_.nl_after_eq == arg->nl_after_eq))   /*@ keeps_the_token_text */
__CPROVER_ensures(nitro_exc == 0 ==> UI_WF(self));                                                /*@ split_at_the_first_equals_sign */

#define UI_OBSERVER(name, SPEC) \
nbool ui_##name(const struct user_input *self) \
__CPROVER_requires(UI_PRE(ui_##name, self)) \
__CPROVER_assigns() \
__CPROVER_ensures(__CPROVER_return_value == (SPEC) && nitro_exc == 0)
UI_OBSERVER(is_value, T_VALUE(&self->arg_));                 /*@ value_iff_no_leading_dash */
UI_OBSERVER(is_double_dash, T_DD(&self->arg_));
UI_OBSERVER(is_short, T_SHORT(&self->arg_));
UI_OBSERVER(is_named, T_NAMED(&self->arg_));
UI_OBSERVER(is_argument, T_SHORT(&self->arg_) || T_NAMED(&self->arg_));
UI_OBSERVER(has_value, T_HAS_VALUE(&self->arg_));
UI_OBSERVER(has_prefix, self->arg_.name_has_no);

const struct ostr *ui_data(const struct user_input *self)
__CPROVER_requires(UI_PRE(ui_data, self))
__CPROVER_assigns()
__CPROVER_ensures(__CPROVER_pointer_equals(__CPROVER_return_value, &self->arg_) && nitro_exc == 0);   /*@ the_token_verbatim */

/* developer-error guards are PRECONDITIONS (C04): every call site is proved to satisfy them */
const struct ostr *ui_name(const struct user_input *self)
__CPROVER_requires(UI_PRE(ui_name, self))
__CPROVER_requires(!T_VALUE(&self->arg_))                                                         /*@ never_asked_for_the_name_of_a_pure_value */
__CPROVER_assigns(nitro_exc)
__CPROVER_ensures(nitro_exc == 0 && __CPROVER_pointer_equals(__CPROVER_return_value, &self->name_));

struct ostr ui_name_without_prefix(const struct user_input *self)
__CPROVER_requires(UI_PRE(ui_name_without_prefix, self))
__CPROVER_requires(self->arg_.name_has_no)                                                        /*@ only_called_for_--no-_tokens */
__CPROVER_assigns(nitro_exc)
__CPROVER_ensures(nitro_exc == 0 && __CPROVER_return_value.id == self->arg_.name_sub5_id);         /*@ the_name_behind_--no- */

const struct ostr *ui_value(const struct user_input *self)
__CPROVER_requires(UI_PRE(ui_value, self))
__CPROVER_requires(T_HAS_VALUE(&self->arg_))                                                      /*@ only_called_when_a_value_is_there */
__CPROVER_assigns(nitro_exc)
__CPROVER_ensures(nitro_exc == 0)
__CPROVER_ensures(__CPROVER_pointer_equals(__CPROVER_return_value, T_VALUE(&self->arg_) ? &self->arg_ : &self->value_));   /*@ a_value_token_is_its_own_value_else_the_text_after_the_first_equals_sign */

void ui_as_short_list(struct omset *result, const struct user_input *self)
__CPROVER_requires(UI_PRE(ui_as_short_list, self) && O_OBJ_OR_OK(ui_as_short_list, result))
__CPROVER_requires(T_SHORT(&self->arg_))                                                          /*@ only_called_for_short_tokens */
__CPROVER_requires(LETTERS_WF && (!NITRO_ENF_ui_as_short_list || (g_at_next == 1 && g_at_hits[0] == 0 && g_at_hits[1] == 0 && g_at_hits[2] == 0 && g_at_hits[3] == 0 && g_at_other == 0)))
__CPROVER_assigns(*result, nitro_exc, g_at_next, g_at_hits, g_at_other)
__CPROVER_ensures(nitro_exc == 0 && result->total == T_NAMELEN(&self->arg_) - 1)                    /*@ one_entry_per_letter_behind_the_dash */
__CPROVER_ensures(result->cnt[0] == self->arg_.lcount[0] && result->cnt[1] == self->arg_.lcount[1] && result->cnt[2] == self->arg_.lcount[2] && result->cnt[3] == self->arg_.lcount[3] && result->other == self->arg_.lother);   /*@ each_letter_as_often_as_it_occurs */
#define NITRO_LOOP_ui_as_short_list_1 \
  __CPROVER_assigns(i, *result, g_at_next, g_at_hits, g_at_other) \
  __CPROVER_loop_invariant(1 <= i && i <= self->name_.len && g_at_next == i && result->total == i - 1) \
  __CPROVER_loop_invariant(result->cnt[0] == g_at_hits[0] && result->cnt[1] == g_at_hits[1] && result->cnt[2] == g_at_hits[2] && result->cnt[3] == g_at_hits[3] && result->other == g_at_other) \
  __CPROVER_loop_invariant(g_at_hits[0] <= i && g_at_hits[1] <= i && g_at_hits[2] <= i && g_at_hits[3] <= i && g_at_other <= i && g_at_hits[0] + g_at_hits[1] + g_at_hits[2] + g_at_hits[3] + g_at_other == i - 1) \
  __CPROVER_loop_invariant((i == self->name_.len && i > 1) ==> (g_at_hits[0] == self->arg_.lcount[0] && g_at_hits[1] == self->arg_.lcount[1] && g_at_hits[2] == self->arg_.lcount[2] && g_at_hits[3] == self->arg_.lcount[3] && g_at_other == self->arg_.lother)) \
  __CPROVER_decreases(self->name_.len - i)

struct ostr ui_as_named(const struct user_input *self)
__CPROVER_requires(UI_PRE(ui_as_named, self))
__CPROVER_requires(T_NAMED(&self->arg_))                                                          /*@ only_called_for_long_tokens */
__CPROVER_assigns(nitro_exc)
__CPROVER_ensures(nitro_exc == 0 && __CPROVER_return_value.id == self->arg_.name_sub2_id);         /*@ the_name_behind_the_two_dashes */

/* ======================= layer 2: declared options ======================= */
struct obase { struct ostr name_; struct ostr short_; struct ostr env_; nbool dirty_; };
struct ooption { struct obase b; nbool value_has; struct ostr value_; nbool default_has; struct ostr default_; nbool is_optional_; };
/* std::vector<std::string>: number of elements and the identity of element number g_w */
struct ovec { size_t count; size_t w_id; };
struct omulti { struct obase b; struct ovec value_; nbool default_has; struct ovec default_; nbool is_optional_; };
struct otoggle { struct obase b; int given_; int default_; nbool reversable_; };
static inline nbool ostr_eq_v(struct ostr a, struct ostr b) { return a.id == b.id; }     /* operator== on interned strings */
static inline void ovec_clear(struct ovec *v) { v->count = 0; v->w_id = 0; }
void ovec_push_back(struct ovec *v, const struct ostr *s)
__CPROVER_requires(__CPROVER_rw_ok(v, sizeof(*v)) && __CPROVER_r_ok(s, sizeof(*s)))
__CPROVER_assigns(*v)
__CPROVER_ensures(v->count == __CPROVER_old(v->count) + 1 && (__CPROVER_old(v->count) == g_w ==> v->w_id == s->id) && (__CPROVER_old(v->count) != g_w ==> v->w_id == __CPROVER_old(v->w_id)));
/* the process environment as seen by one check(): what nitro::env::get(name) returned last ("" when unset) */
extern struct ostr g_env_value; extern size_t g_env_name;
struct ostr nitro_env_get(const struct ostr *name)
__CPROVER_requires(__CPROVER_r_ok(name, sizeof(*name)))
__CPROVER_assigns(g_env_name)
__CPROVER_ensures(g_env_name == name->id && __CPROVER_return_value.id == g_env_value.id && __CPROVER_return_value.len == g_env_value.len);
/* std::getline(stream, element, ';') over the environment text: piece number i has identity PIECE(i); pieces_total pieces */
struct ogetline { size_t next; };
extern size_t g_pieces_total, g_piece_w_id;          /* number of ';'-separated pieces; identity of piece number g_w */
static inline void ogetline_init(struct ogetline *g, const struct ostr *text) { (void)text; g->next = 0; }
nbool ogetline_next(struct ogetline *g, struct ostr *element)
__CPROVER_requires(__CPROVER_rw_ok(g, sizeof(*g)) && __CPROVER_w_ok(element, sizeof(*element)) && g->next <= g_pieces_total)
__CPROVER_assigns(*g, *element)
__CPROVER_ensures(__CPROVER_return_value == (__CPROVER_old(g->next) < g_pieces_total))
__CPROVER_ensures(__CPROVER_return_value ==> (g->next == __CPROVER_old(g->next) + 1 && (__CPROVER_old(g->next) == g_w ==> element->id == g_piece_w_id)))
__CPROVER_ensures(!__CPROVER_return_value ==> g->next == __CPROVER_old(g->next));
#undef NITRO_UNIT_GLOBALS
#undef NITRO_HAVOC_UNIT
#define NITRO_UNIT_GLOBALS NITRO_OPT_GLOBALS size_t g_oi, g_pn; struct pstep g_step; struct ostr g_env_value; size_t g_env_name, g_pieces_total, g_piece_w_id;
#define NITRO_HAVOC_UNIT NITRO_OPT_HAVOC g_oi = nondet_size_t(); g_pn = nondet_size_t(); { struct pstep nitro_sp; g_step = nitro_sp; } g_env_value.id = nondet_size_t(); g_env_value.len = nondet_size_t(); g_env_name = nondet_size_t(); g_pieces_total = nondet_size_t(); g_piece_w_id = nondet_size_t();

#define BASE_WF_V(b) (LETTERS_WF && (b).short_.len <= 1 && ((b).short_.len == 1 ==> LETTER_SLOT((b).short_.b0) < NITRO_NL))   /* short name: one character, and one of the table letters */
/* how often the letter of option b occurs in token a */
#define LCOUNT(b, a) ((b)->short_.b0 == g_letters[0] ? (a)->lcount[0] : (b)->short_.b0 == g_letters[1] ? (a)->lcount[1] : (b)->short_.b0 == g_letters[2] ? (a)->lcount[2] : (a)->lcount[3])
#define VALUE_ID_OF(a) (T_VALUE(a) ? (a)->id : (a)->value_id)                                      /* the value a token carries: itself, or the text after the first '=' */

#define BASE_OBS(name, RT, SPEC) \
RT base_##name(const struct obase *self) \
__CPROVER_requires(nitro_exc == 0 && O_OBJ_OR_ROK(base_##name, self)) \
__CPROVER_assigns() \
__CPROVER_ensures(nitro_exc == 0 && SPEC)
BASE_OBS(has_short_name, nbool, __CPROVER_return_value == (self->short_.len != 0));
BASE_OBS(has_env, nbool, __CPROVER_return_value == (self->env_.len != 0));
BASE_OBS(has_non_default, nbool, __CPROVER_return_value == self->dirty_);
BASE_OBS(short_name, const struct ostr *, __CPROVER_pointer_equals(__CPROVER_return_value, &self->short_));
BASE_OBS(name, const struct ostr *, __CPROVER_pointer_equals(__CPROVER_return_value, &self->name_));
BASE_OBS(env, const struct ostr *, __CPROVER_pointer_equals(__CPROVER_return_value, &self->env_));

/* which tokens denote an option (C01/C02): its letter in a short token (a bundle with '=value' never matches), or its long name */
#define M_LETTER(b, a) ((b)->short_.len != 0 && T_SHORT(a) && !(T_NAMELEN(a) > 2 && T_HAS_VALUE(a)) && LCOUNT(b, a) > 0)
#define M_LONG(b, a) (!((b)->short_.len != 0 && T_SHORT(a)) && T_NAMED(a) && (a)->name_sub2_id == (b)->name_.id)
#define M_BASE(b, a) (M_LETTER(b, a) || M_LONG(b, a))
nbool base_matches(const struct obase *self, const struct user_input *arg)
__CPROVER_requires(nitro_exc == 0 && O_OBJ_OR_ROK(base_matches, self) && O_OBJ_OR_ROK(base_matches, arg) && UI_WF(arg) && BASE_WF_V(*self))
__CPROVER_assigns(nitro_exc, g_at_next, g_at_hits, g_at_other)
__CPROVER_ensures(nitro_exc == 0)                                                                 /*@ matching_never_raises */
__CPROVER_ensures(__CPROVER_return_value == M_BASE(self, &arg->arg_));                            /*@ matches_iff_letter_or_long_name */

/* a.compare(2, b.size(), b) == 0: b is a prefix of a without its first two bytes.  Decided where the abstraction decides it (equal texts; lengths that
 * exclude a prefix), arbitrary otherwise - sound for any use, and a use as an equality test fails its contract on the longer-token case */
static inline nbool ostr_prefix_at2_is(const struct ostr *a, const struct ostr *b)
{
    if (a->name_sub2_id == b->id) return 1;
    if (T_NAMELEN(a) < 2 || T_NAMELEN(a) - 2 <= b->len) return 0;       /* shorter, or equally long but a different text */
    return nondet_nbool();
}
/* ---- toggle ---- */
#define M_NO(t, a) ((a)->name_has_no && (a)->name_sub5_id == (t)->b.name_.id)                       /* --no-<name> */
#define M_TOGGLE(t, a) (M_NO(t, a) || M_BASE(&(t)->b, a))
int toggle_given(const struct otoggle *self)
__CPROVER_requires(nitro_exc == 0 && O_OBJ_OR_ROK(toggle_given, self))
__CPROVER_assigns()
__CPROVER_ensures(__CPROVER_return_value == self->given_ && nitro_exc == 0);
nbool toggle_is_reversible(const struct otoggle *self)
__CPROVER_requires(nitro_exc == 0 && O_OBJ(self))
__CPROVER_assigns()
__CPROVER_ensures(__CPROVER_return_value == self->reversable_);
struct otoggle *toggle_allow_reverse(struct otoggle *self)
__CPROVER_requires(nitro_exc == 0 && O_OBJ(self))
__CPROVER_assigns(self->reversable_)
__CPROVER_ensures(self->reversable_ && __CPROVER_return_value == self);
struct otoggle *toggle_default_value_bool(struct otoggle *self, nbool def)
__CPROVER_requires(nitro_exc == 0 && O_OBJ(self))
__CPROVER_assigns(self->default_)
__CPROVER_ensures(self->default_ == (def ? 1 : 0) && __CPROVER_return_value == self);
struct otoggle *toggle_default_value_int(struct otoggle *self, int def)
__CPROVER_requires(nitro_exc == 0 && O_OBJ(self))
__CPROVER_assigns(self->default_)
__CPROVER_ensures(self->default_ == def && __CPROVER_return_value == self);

/* C11: the documented vocabulary, by identity (16..30 truthy, 32..46 falsy, see unit.py) */
#define WORD_TRUTHY(s) ((s)->id >= 16 && (s)->id <= 30)
#define WORD_FALSY(s) ((s)->id >= 32 && (s)->id <= 46)
nbool toggle_parse_env_value(const struct ostr *env_value_p)
__CPROVER_requires(nitro_exc == 0 && O_OBJ_OR_ROK(toggle_parse_env_value, env_value_p))
__CPROVER_assigns(nitro_exc)
__CPROVER_ensures((!WORD_TRUTHY(env_value_p) && !WORD_FALSY(env_value_p)) == (nitro_exc != 0))       /*@ every_word_outside_the_vocabulary_is_rejected */
__CPROVER_ensures(nitro_exc == 0 || nitro_exc == EXC_PARSING_ERROR)                                 /*@ as_a_user_input_error */
__CPROVER_ensures(nitro_exc == 0 ==> __CPROVER_return_value == WORD_TRUTHY(env_value_p));            /*@ truthy_words_give_true_falsy_words_false */

static inline size_t toggle_short_count(const struct user_input *arg, const struct ostr *key)      /* arg.as_short_list().count(short_name()) */
{ struct omset l; ui_as_short_list(&l, arg); return omset_count(&l, key); }

/* KNOWN FINDING toggle_named_no: a toggle whose own name starts with "no-" — its long spelling --no-xyz is read as the reversal of "xyz" */
#define TOGGLE_R_OWN_NO(t, a) ((a)->name_has_no && T_NAMED(a) && (a)->name_sub2_id == (t)->b.name_.id)
#if NITRO_KF_REGION && defined(NITRO_KF_SEL_toggle_named_no)
#define TOGGLE_KF_PRE(t, a) TOGGLE_R_OWN_NO(t, a)
#else
#define TOGGLE_KF_PRE(t, a) (!KF_toggle_named_no || !TOGGLE_R_OWN_NO(t, a))
#endif
#define TOGGLE_UNCHANGED(t) ((t)->given_ == __CPROVER_old((t)->given_) && (t)->b.dirty_ == __CPROVER_old((t)->b.dirty_))
/* positive occurrences a token contributes: one for the long spelling, one per occurrence of the letter in a short token */
#define TOGGLE_POSITIVE(t, a) (M_LONG(&(t)->b, a) || (M_LETTER(&(t)->b, a)))
void toggle_update_value(struct otoggle *self, const struct user_input *arg)
__CPROVER_requires(nitro_exc == 0 && O_OBJ_OR_OK(toggle_update_value, self) && O_OBJ_OR_ROK(toggle_update_value, arg) && UI_WF(arg) && BASE_WF_V(self->b))
__CPROVER_requires(M_TOGGLE(self, &arg->arg_) && self->given_ >= 0 && self->given_ < (1 << 30) && arg->arg_.len < (1 << 20))
__CPROVER_requires(self->b.dirty_ || self->given_ == 0)     /* state invariant between prepare() and check(): a toggle that was not touched counts 0 */
__CPROVER_requires(TOGGLE_KF_PRE(self, &arg->arg_))
__CPROVER_assigns(self->given_, self->b.dirty_, nitro_exc, g_at_next, g_at_hits, g_at_other)
__CPROVER_ensures(nitro_exc == 0 || nitro_exc == EXC_PARSING_ERROR)
__CPROVER_ensures(T_HAS_VALUE(&arg->arg_) ==> nitro_exc != 0)                                       /*@ value_on_a_toggle_is_rejected */
__CPROVER_ensures((!T_HAS_VALUE(&arg->arg_) && !TOGGLE_POSITIVE(self, &arg->arg_) && !self->reversable_) ==> nitro_exc != 0)   /*@ no-_form_only_for_reversible_toggles */
__CPROVER_ensures((!T_HAS_VALUE(&arg->arg_) && !TOGGLE_POSITIVE(self, &arg->arg_) && __CPROVER_old(self->b.dirty_) && __CPROVER_old(self->given_) > 0) ==> nitro_exc != 0)   /*@ reversal_after_a_positive_spelling_is_rejected */
__CPROVER_ensures((!T_HAS_VALUE(&arg->arg_) && TOGGLE_POSITIVE(self, &arg->arg_) && __CPROVER_old(self->b.dirty_) && __CPROVER_old(self->given_) == 0) ==> nitro_exc != 0)   /*@ positive_spelling_after_a_reversal_is_rejected */
__CPROVER_ensures(nitro_exc != 0 ==> (T_HAS_VALUE(&arg->arg_) || (!TOGGLE_POSITIVE(self, &arg->arg_) && (!self->reversable_ || (__CPROVER_old(self->b.dirty_) && __CPROVER_old(self->given_) > 0))) ||
      (TOGGLE_POSITIVE(self, &arg->arg_) && __CPROVER_old(self->b.dirty_) && __CPROVER_old(self->given_) == 0)))   /*@ rejected_only_for_a_documented_reason */
__CPROVER_ensures((nitro_exc == 0 && !TOGGLE_POSITIVE(self, &arg->arg_)) ==> (self->given_ == 0 && self->b.dirty_ && self->reversable_ && !T_HAS_VALUE(&arg->arg_)))   /*@ no-_form_yields_0 */
__CPROVER_ensures((nitro_exc == 0 && TOGGLE_POSITIVE(self, &arg->arg_)) ==> (self->b.dirty_ && !T_HAS_VALUE(&arg->arg_) &&
      self->given_ == __CPROVER_old(self->given_) + (T_SHORT(&arg->arg_) ? (int)LCOUNT(&self->b, &arg->arg_) : 1)));   /*@ each_long_spelling_and_each_letter_occurrence_adds_one */

void toggle_prepare(struct otoggle *self)
__CPROVER_requires(nitro_exc == 0 && O_OBJ_OR_OK(toggle_prepare, self))
__CPROVER_assigns(self->given_, self->b.dirty_)
__CPROVER_ensures(nitro_exc == 0 && self->given_ == 0 && !self->b.dirty_);                          /*@ nothing_left_of_an_earlier_parse */

/* C03/C11: command line, then environment word, then default */
void toggle_check(struct otoggle *self)
__CPROVER_requires(nitro_exc == 0 && O_OBJ_OR_OK(toggle_check, self))
__CPROVER_assigns(self->given_, self->b.dirty_, nitro_exc, g_env_name)
__CPROVER_ensures(nitro_exc == 0 || nitro_exc == EXC_PARSING_ERROR)
__CPROVER_ensures(__CPROVER_old(self->b.dirty_) ==> (nitro_exc == 0 && TOGGLE_UNCHANGED(self)))        /*@ command_line_wins */
#define TC_ENV (!__CPROVER_old(self->b.dirty_) && self->b.env_.len != 0 && g_env_value.len != 0)
__CPROVER_ensures(TC_ENV ==> ((nitro_exc != 0) == (!WORD_TRUTHY(&g_env_value) && !WORD_FALSY(&g_env_value))))   /*@ unparsable_environment_word_is_rejected */
__CPROVER_ensures((TC_ENV && nitro_exc == 0) ==> (self->given_ == (WORD_TRUTHY(&g_env_value) ? 1 : 0) && self->b.dirty_ && g_env_name == self->b.env_.id))   /*@ environment_word_gives_1_or_0_and_counts_as_provided */
__CPROVER_ensures((!__CPROVER_old(self->b.dirty_) && !TC_ENV) ==> (nitro_exc == 0 && self->given_ == self->default_ && !self->b.dirty_));   /*@ else_the_declared_default_not_provided */
nbool toggle_matches(const struct otoggle *self, const struct user_input *arg)
__CPROVER_requires(nitro_exc == 0 && O_OBJ_OR_ROK(toggle_matches, self) && O_OBJ_OR_ROK(toggle_matches, arg) && UI_WF(arg) && BASE_WF_V(self->b))
__CPROVER_assigns(nitro_exc, g_at_next, g_at_hits, g_at_other)
__CPROVER_ensures(nitro_exc == 0 && __CPROVER_return_value == M_TOGGLE(self, &arg->arg_));           /*@ matches_iff_long_name_no-_form_or_letter */

/* ---- option ---- */
void option_update_value(struct ooption *self, const struct user_input *arg)
__CPROVER_requires(nitro_exc == 0 && O_OBJ_OR_OK(option_update_value, self) && O_OBJ_OR_ROK(option_update_value, arg) && UI_WF(arg) && T_HAS_VALUE(&arg->arg_))
__CPROVER_assigns(self->value_has, self->value_, self->b.dirty_, nitro_exc)
__CPROVER_ensures((__CPROVER_old(self->value_has) != 0) == (nitro_exc != 0))                                /*@ single_valued_option_given_twice_is_rejected */
__CPROVER_ensures(nitro_exc == 0 || nitro_exc == EXC_PARSING_ERROR)
__CPROVER_ensures(nitro_exc == 0 ==> (self->value_has && self->b.dirty_ && self->value_.id == VALUE_ID_OF(&arg->arg_)));   /*@ holds_the_given_value_byte_for_byte */
void option_prepare(struct ooption *self)
__CPROVER_requires(nitro_exc == 0 && O_OBJ_OR_OK(option_prepare, self))
__CPROVER_assigns(self->value_has, self->value_, self->b.dirty_)
__CPROVER_ensures(nitro_exc == 0 && !self->value_has && !self->b.dirty_);                            /*@ nothing_left_of_an_earlier_parse */
void option_check(struct ooption *self)
__CPROVER_requires(nitro_exc == 0 && O_OBJ_OR_OK(option_check, self) && (!self->b.dirty_ || self->value_has))
__CPROVER_assigns(self->value_has, self->value_, self->b.dirty_, nitro_exc, g_env_name)
__CPROVER_ensures(nitro_exc == 0 || nitro_exc == EXC_PARSING_ERROR)
__CPROVER_ensures(__CPROVER_old(self->value_has) ==> (nitro_exc == 0 && self->value_has && self->value_.id == __CPROVER_old(self->value_.id) && self->b.dirty_ == __CPROVER_old(self->b.dirty_)))   /*@ command_line_wins */
#define OC_ENV (!__CPROVER_old(self->value_has) && self->b.env_.len != 0 && g_env_value.len != 0)
__CPROVER_ensures(OC_ENV ==> (nitro_exc == 0 && self->value_has && self->value_.id == g_env_value.id && self->b.dirty_ && g_env_name == self->b.env_.id))   /*@ environment_value_verbatim_and_provided */
#define OC_DEFAULT (!__CPROVER_old(self->value_has) && !OC_ENV && self->default_has)
__CPROVER_ensures(OC_DEFAULT ==> (nitro_exc == 0 && self->value_has && self->value_.id == self->default_.id && self->b.dirty_ == __CPROVER_old(self->b.dirty_)))   /*@ else_the_default_not_provided */
__CPROVER_ensures((!__CPROVER_old(self->value_has) && !OC_ENV && !self->default_has) ==> ((nitro_exc != 0) == !self->is_optional_ && !self->value_has));   /*@ no_source_fails_iff_required */
const struct ostr *option_get(const struct ooption *self)
__CPROVER_requires(nitro_exc == 0 && O_OBJ(self) && self->value_has)
__CPROVER_assigns()
__CPROVER_ensures(__CPROVER_return_value == &self->value_);

/* ---- multi_option ---- */
void multi_update_value(struct omulti *self, const struct user_input *arg)
__CPROVER_requires(nitro_exc == 0 && O_OBJ_OR_OK(multi_update_value, self) && O_OBJ_OR_ROK(multi_update_value, arg) && UI_WF(arg) && T_HAS_VALUE(&arg->arg_) && self->value_.count < OSTR_MAXLEN)
__CPROVER_assigns(self->value_, self->b.dirty_, nitro_exc)
__CPROVER_ensures(nitro_exc == 0 && self->b.dirty_ && self->value_.count == __CPROVER_old(self->value_.count) + 1)   /*@ one_more_value_at_the_end */
__CPROVER_ensures(__CPROVER_old(self->value_.count) == g_w ==> self->value_.w_id == VALUE_ID_OF(&arg->arg_))           /*@ it_is_the_given_value_byte_for_byte */
__CPROVER_ensures(__CPROVER_old(self->value_.count) != g_w ==> self->value_.w_id == __CPROVER_old(self->value_.w_id));   /*@ earlier_values_keep_their_order */
void multi_prepare(struct omulti *self)
__CPROVER_requires(nitro_exc == 0 && O_OBJ_OR_OK(multi_prepare, self))
__CPROVER_assigns(self->value_, self->b.dirty_)
__CPROVER_ensures(nitro_exc == 0 && self->value_.count == 0 && !self->b.dirty_);                      /*@ nothing_left_of_an_earlier_parse */
void multi_check(struct omulti *self)
__CPROVER_requires(nitro_exc == 0 && O_OBJ_OR_OK(multi_check, self) && g_pieces_total <= OSTR_MAXLEN && self->value_.count <= OSTR_MAXLEN)
__CPROVER_assigns(self->value_, self->b.dirty_, nitro_exc, g_env_name)
__CPROVER_ensures(nitro_exc == 0 || nitro_exc == EXC_PARSING_ERROR)
__CPROVER_ensures(__CPROVER_old(self->value_.count) != 0 ==> (nitro_exc == 0 && self->value_.count == __CPROVER_old(self->value_.count) && self->value_.w_id == __CPROVER_old(self->value_.w_id) && self->b.dirty_ == __CPROVER_old(self->b.dirty_)))   /*@ command_line_wins */
#define MC_ENV (__CPROVER_old(self->value_.count) == 0 && self->b.env_.len != 0 && g_env_value.len != 0)
__CPROVER_ensures(MC_ENV ==> (nitro_exc == 0 && self->value_.count == g_pieces_total && (g_w < g_pieces_total ==> self->value_.w_id == g_piece_w_id) && (g_pieces_total > 0 ==> self->b.dirty_)))   /*@ environment_value_split_at_semicolons_verbatim */
__CPROVER_ensures((__CPROVER_old(self->value_.count) == 0 && !MC_ENV && self->default_has) ==> (nitro_exc == 0 && self->value_.count == self->default_.count && self->value_.w_id == self->default_.w_id && self->b.dirty_ == __CPROVER_old(self->b.dirty_)))   /*@ else_the_default_not_provided */
__CPROVER_ensures((__CPROVER_old(self->value_.count) == 0 && !MC_ENV && !self->default_has) ==> ((nitro_exc != 0) == !self->is_optional_ && self->value_.count == 0));   /*@ no_source_fails_iff_required */
#define NITRO_LOOP_multi_check_1 \
  __CPROVER_assigns(str, element, self->value_, self->b.dirty_) \
  __CPROVER_loop_invariant(nitro_exc == 0 && str.next <= g_pieces_total && self->value_.count == str.next && (g_w < str.next ==> self->value_.w_id == g_piece_w_id) && (str.next > 0 ==> self->b.dirty_) && (str.next == 0 ==> self->b.dirty_ == __CPROVER_loop_entry(self->b.dirty_))) \
  __CPROVER_decreases(g_pieces_total - str.next)
size_t multi_count(const struct omulti *self)
__CPROVER_requires(nitro_exc == 0 && O_OBJ(self))
__CPROVER_assigns()
__CPROVER_ensures(__CPROVER_return_value == self->value_.count);

/* ======================= layer 3: the parser ======================= */
#ifndef NITRO_K
#define NITRO_K 2          /* declarations per kind (bound, DESIGN.md 4.1); the arrays hold them in key order */
#endif
#ifndef NITRO_EXTRA_MEMBERS_oparser
#define NITRO_EXTRA_MEMBERS_oparser
#endif
struct oparser { struct ooption opts[NITRO_K]; size_t n_opts; struct omulti mopts[NITRO_K]; size_t n_mopts; struct otoggle toggles[NITRO_K]; size_t n_toggles;
                 size_t allowed_positionals_; nbool greedy_positionals_;  NITRO_EXTRA_MEMBERS_oparser };
/* std::set<std::string> of one-character short names: membership per table letter */
struct oletters { nbool has[NITRO_NL]; };
static inline void oletters_init(struct oletters *s) { s->has[0] = 0; s->has[1] = 0; s->has[2] = 0; s->has[3] = 0; }
static inline nbool oletters_emplace(struct oletters *s, const struct ostr *k)    /* emplace(k).second */
{ size_t j = LETTER_SLOT(k->b0); if (j >= NITRO_NL) return nondet_nbool(); if (s->has[j]) return 0; s->has[j] = 1; return 1; }
static inline size_t ui_short_total(const struct user_input *u) { struct omset l; ui_as_short_list(&l, u); return l.total; }    /* as_short_list().size() */
#define T_NLETTERS(a) (T_NAMELEN(a) - 1)
#define T_BUNDLE(a) (T_SHORT(a) && T_NLETTERS(a) > 1)
extern size_t g_oi;   /* witness index of a declared option / multi-option / toggle */

/* frames: parsing writes the STATE of the declared entities only (value, count, dirty flag), never a declaration (name, letter,
 * environment binding, default, flags) - the frame condition is what carries "the declaration is the same for every token" */
#define OPT_STATE(o) (o).value_has, (o).value_, (o).b.dirty_
#define MOPT_STATE(o) (o).value_, (o).b.dirty_
#define TOG_STATE(t) (t).given_, (t).b.dirty_
#define PARSER_STATE OPT_STATE(self->opts[0]), OPT_STATE(self->opts[1]), MOPT_STATE(self->mopts[0]), MOPT_STATE(self->mopts[1]), TOG_STATE(self->toggles[0]), TOG_STATE(self->toggles[1])
/* ---- try_parse_as_option (two instantiations) ----
 * the token *it either names none of the given options (false, nothing changes), or names one: then a bundle is rejected,
 * the value is the text after '=' or else the NEXT token, which must exist and be a value token and is consumed. */
#ifndef NITRO_NARGS
#define NITRO_NARGS 3      /* argument vectors of up to NITRO_NARGS tokens (bound; token length is unbounded) */
#endif
struct oargs { size_t n; struct user_input a[NITRO_NARGS]; };              /* std::vector<user_input> */
/* iterators are positions in the vector (see unit.py, rule D3.iterator-*); the harness allocates typed objects */
/* the position is fixed to 0: the code under contract uses the iterator only relatively (it, it + 1, end), assumption A-shift in DESIGN.md */
#define TPO_TOKENS_PRE(fn) (__CPROVER_rw_ok(it_ref, sizeof(*it_ref)) && __CPROVER_r_ok(args, sizeof(*args)) && args->n <= NITRO_NARGS && *it_ref == 0 && *it_ref < args->n && \
   ui_wf_v(args->a[*it_ref]) && (*it_ref + 1 != args->n ==> ui_wf_v(args->a[*it_ref + 1])) && args->a[*it_ref].arg_.len < (1 << 20))
#define TPO_OPTS_PRE(fn, T) (n_options <= NITRO_K && __CPROVER_rw_ok(options, NITRO_K * sizeof(T)) && \
   (n_options > 0 ==> BASE_WF_V(options[0].b)) && (n_options > 1 ==> BASE_WF_V(options[1].b)))
#define TOK0 (__CPROVER_old(*it_ref))
#define TOK (&args->a[TOK0].arg_)
#define NXT (&args->a[TOK0 + 1].arg_)
#define TPO_M0 (n_options > 0 && M_BASE(&options[0].b, TOK))
#define TPO_M1 (n_options > 1 && !TPO_M0 && M_BASE(&options[1].b, TOK))
#define TPO_MATCH (TPO_M0 || TPO_M1)
#define TPO_NEXT_OK (TOK0 + 1 != args->n && T_VALUE(NXT))
#define TPO_VALUE_ID (T_HAS_VALUE(TOK) ? VALUE_ID_OF(TOK) : NXT->id)
#define TPO_CAN (!T_BUNDLE(TOK) && (T_HAS_VALUE(TOK) || TPO_NEXT_OK))
#define TPO_ADVANCE 1   /* the position of the iterator is given by the unconditional clause iterator_advances_over_a_consumed_value_only */
#define OPT_SAME(j) (options[j].value_has == __CPROVER_old(options[j].value_has) && options[j].value_.id == __CPROVER_old(options[j].value_.id) && options[j].b.dirty_ == __CPROVER_old(options[j].b.dirty_))
#define OPT_SET(j) (options[j].value_has && options[j].b.dirty_ && options[j].value_.id == TPO_VALUE_ID)
nbool tpo_option(struct ooption *options, size_t n_options, size_t *it_ref, const struct oargs *args)
__CPROVER_requires(nitro_exc == 0 && TPO_OPTS_PRE(tpo_option, struct ooption) && TPO_TOKENS_PRE(tpo_option))
__CPROVER_assigns(nitro_exc, *it_ref, g_at_next, g_at_hits, g_at_other, OPT_STATE(options[0]), OPT_STATE(options[1]))
__CPROVER_ensures(nitro_exc == 0 || nitro_exc == EXC_PARSING_ERROR)
__CPROVER_ensures(*it_ref == TOK0 + ((nitro_exc == 0 && __CPROVER_return_value && !T_HAS_VALUE(TOK)) ? 1 : 0))   /*@ iterator_advances_over_a_consumed_value_only */
__CPROVER_ensures(!TPO_MATCH ==> (nitro_exc == 0 && !__CPROVER_return_value))                                             /*@ unknown_name_is_not_consumed */
__CPROVER_ensures((TPO_MATCH && T_BUNDLE(TOK)) ==> nitro_exc != 0)                                                        /*@ option_letter_inside_a_bundle_is_rejected */
__CPROVER_ensures((TPO_MATCH && !T_BUNDLE(TOK) && !T_HAS_VALUE(TOK) && !TPO_NEXT_OK) ==> nitro_exc != 0)                  /*@ value_missing_is_rejected */
__CPROVER_ensures((TPO_CAN && ((TPO_M0 && __CPROVER_old(options[0].value_has)) || (TPO_M1 && __CPROVER_old(options[1].value_has)))) ==> nitro_exc != 0)   /*@ single_valued_option_given_twice_is_rejected */
__CPROVER_ensures((TPO_CAN && TPO_M0 && !__CPROVER_old(options[0].value_has)) ==> (nitro_exc == 0 && __CPROVER_return_value && OPT_SET(0) && TPO_ADVANCE))   /*@ option_gets_its_value_and_consumes_exactly_that_token */
__CPROVER_ensures((TPO_CAN && TPO_M1 && !__CPROVER_old(options[1].value_has)) ==> (nitro_exc == 0 && __CPROVER_return_value && OPT_SET(1) && TPO_ADVANCE))
__CPROVER_ensures((n_options > 0 && !TPO_M0) ==> OPT_SAME(0))                                                             /*@ other_options_untouched */
__CPROVER_ensures((n_options > 1 && !TPO_M1) ==> OPT_SAME(1))
__CPROVER_ensures(nitro_exc == 0 ==> (__CPROVER_return_value == TPO_MATCH));

#define MOPT_SAME(j) (options[j].value_.count == __CPROVER_old(options[j].value_.count) && options[j].value_.w_id == __CPROVER_old(options[j].value_.w_id) && options[j].b.dirty_ == __CPROVER_old(options[j].b.dirty_))
#define MOPT_PUSHED(j) (options[j].b.dirty_ && options[j].value_.count == __CPROVER_old(options[j].value_.count) + 1 && \
      (__CPROVER_old(options[j].value_.count) == g_w ==> options[j].value_.w_id == TPO_VALUE_ID) && (__CPROVER_old(options[j].value_.count) != g_w ==> options[j].value_.w_id == __CPROVER_old(options[j].value_.w_id)))
nbool tpo_multi(struct omulti *options, size_t n_options, size_t *it_ref, const struct oargs *args)
__CPROVER_requires(nitro_exc == 0 && TPO_OPTS_PRE(tpo_multi, struct omulti) && TPO_TOKENS_PRE(tpo_multi))
__CPROVER_requires((n_options > 0 ==> options[0].value_.count < OSTR_MAXLEN) && (n_options > 1 ==> options[1].value_.count < OSTR_MAXLEN))
__CPROVER_assigns(nitro_exc, *it_ref, g_at_next, g_at_hits, g_at_other, MOPT_STATE(options[0]), MOPT_STATE(options[1]))
__CPROVER_ensures(nitro_exc == 0 || nitro_exc == EXC_PARSING_ERROR)
__CPROVER_ensures(*it_ref == TOK0 + ((nitro_exc == 0 && __CPROVER_return_value && !T_HAS_VALUE(TOK)) ? 1 : 0))   /*@ iterator_advances_over_a_consumed_value_only */
__CPROVER_ensures(!TPO_MATCH ==> (nitro_exc == 0 && !__CPROVER_return_value))                                             /*@ unknown_name_is_not_consumed */
__CPROVER_ensures((TPO_MATCH && T_BUNDLE(TOK)) ==> nitro_exc != 0)                                                        /*@ option_letter_inside_a_bundle_is_rejected */
__CPROVER_ensures((TPO_MATCH && !T_BUNDLE(TOK) && !T_HAS_VALUE(TOK) && !TPO_NEXT_OK) ==> nitro_exc != 0)                  /*@ value_missing_is_rejected */
__CPROVER_ensures((TPO_CAN && TPO_M0) ==> (nitro_exc == 0 && __CPROVER_return_value && MOPT_PUSHED(0) && TPO_ADVANCE))      /*@ value_appended_in_command_line_order */
__CPROVER_ensures((TPO_CAN && TPO_M1) ==> (nitro_exc == 0 && __CPROVER_return_value && MOPT_PUSHED(1) && TPO_ADVANCE))
__CPROVER_ensures((n_options > 0 && !TPO_M0) ==> MOPT_SAME(0))                                                            /*@ other_options_untouched */
__CPROVER_ensures((n_options > 1 && !TPO_M1) ==> MOPT_SAME(1))
__CPROVER_ensures(nitro_exc == 0 ==> (__CPROVER_return_value == TPO_MATCH));

/* second contracts of the same two functions for the call sites where the token names none of the options: nothing but the scratch
 * state of matching is written - in particular the iterator stays where it is.  Enforced against the same bodies (jobs tpo_*~nomatch). */
#define TPO_PRE_TOK (&args->a[*it_ref].arg_)
#define TPO_PRE_MATCH ((n_options > 0 && M_BASE(&options[0].b, TPO_PRE_TOK)) || (n_options > 1 && M_BASE(&options[1].b, TPO_PRE_TOK)))
nbool tpo_option_nomatch(struct ooption *options, size_t n_options, size_t *it_ref, const struct oargs *args)
__CPROVER_requires(nitro_exc == 0 && TPO_OPTS_PRE(tpo_option, struct ooption) && TPO_TOKENS_PRE(tpo_option) && !TPO_PRE_MATCH)
__CPROVER_assigns(nitro_exc, g_at_next, g_at_hits, g_at_other)
__CPROVER_ensures(nitro_exc == 0 && !__CPROVER_return_value);                                                             /*@ unknown_name_is_not_consumed_and_nothing_changes */
nbool tpo_multi_nomatch(struct omulti *options, size_t n_options, size_t *it_ref, const struct oargs *args)
__CPROVER_requires(nitro_exc == 0 && TPO_OPTS_PRE(tpo_multi, struct omulti) && TPO_TOKENS_PRE(tpo_multi) && !TPO_PRE_MATCH)
__CPROVER_assigns(nitro_exc, g_at_next, g_at_hits, g_at_other)
__CPROVER_ensures(nitro_exc == 0 && !__CPROVER_return_value);                                                             /*@ unknown_name_is_not_consumed_and_nothing_changes */

/* ---- try_parse_as_toggle ---- */
#define TG(k) (&self->toggles[k])
#define IN (&in->arg_)
#define TGM(k) (self->n_toggles > (k) && M_TOGGLE(TG(k), IN))
#define TG_LETTERS (((self->n_toggles > 0 && M_LETTER(&TG(0)->b, IN)) ? LCOUNT(&TG(0)->b, IN) : 0) + ((self->n_toggles > 1 && M_LETTER(&TG(1)->b, IN)) ? LCOUNT(&TG(1)->b, IN) : 0))
/* the declared toggles are unambiguous: distinct names, distinct letters (what check_parser_consistency and the declaration functions guarantee) */
#define TOGGLES_DISTINCT (self->n_toggles < 2 || (TG(0)->b.name_.id != TG(1)->b.name_.id && (TG(0)->b.short_.len == 0 || TG(1)->b.short_.len == 0 || TG(0)->b.short_.b0 != TG(1)->b.short_.b0)))
#define TG_RANGE(k) (self->n_toggles <= (k) || (BASE_WF_V(TG(k)->b) && TG(k)->given_ >= 0 && TG(k)->given_ < (1 << 30) && (TG(k)->b.dirty_ || TG(k)->given_ == 0) && TOGGLE_KF_PRE(TG(k), IN)))
#define TG_SAME(k) (TG(k)->given_ == __CPROVER_old(TG(k)->given_) && TG(k)->b.dirty_ == __CPROVER_old(TG(k)->b.dirty_))
#define TG_POS(k) TOGGLE_POSITIVE(TG(k), IN)
#define TG_CONFLICT(k) (TGM(k) && ((!TG_POS(k) && (!TG(k)->reversable_ || (__CPROVER_old(TG(k)->b.dirty_) && __CPROVER_old(TG(k)->given_) > 0))) || (TG_POS(k) && __CPROVER_old(TG(k)->b.dirty_) && __CPROVER_old(TG(k)->given_) == 0)))
#define TG_UPDATED(k) (TG(k)->b.dirty_ && TG(k)->given_ == (TG_POS(k) ? __CPROVER_old(TG(k)->given_) + (T_SHORT(IN) ? (int)LCOUNT(&TG(k)->b, IN) : 1) : 0))
nbool try_parse_as_toggle(struct oparser *self, const struct user_input *in)
__CPROVER_requires(nitro_exc == 0 && O_OBJ_OR_OK(try_parse_as_toggle, self) && O_OBJ_OR_ROK(try_parse_as_toggle, in) && UI_WF(in) && in->arg_.len < (1 << 20))
__CPROVER_requires(self->n_toggles <= NITRO_K && TG_RANGE(0) && TG_RANGE(1) && TOGGLES_DISTINCT && g_oi < NITRO_K)
__CPROVER_assigns(nitro_exc, g_at_next, g_at_hits, g_at_other, TOG_STATE(self->toggles[0]), TOG_STATE(self->toggles[1]))
__CPROVER_ensures(nitro_exc == 0 || nitro_exc == EXC_PARSING_ERROR)
__CPROVER_ensures((!TGM(0) && !TGM(1)) ==> (nitro_exc == 0 && !__CPROVER_return_value))                                        /*@ token_that_is_no_toggle_is_not_consumed */
__CPROVER_ensures(((TGM(0) || TGM(1)) && T_HAS_VALUE(IN)) ==> nitro_exc != 0)                                                 /*@ value_on_a_toggle_is_rejected */
__CPROVER_ensures(((TGM(0) || TGM(1)) && T_SHORT(IN) && TG_LETTERS != T_NLETTERS(IN)) ==> nitro_exc != 0)                      /*@ bundle_with_a_letter_that_is_no_toggle_is_rejected */
__CPROVER_ensures((TG_CONFLICT(0) || TG_CONFLICT(1)) ==> nitro_exc != 0)                                                      /*@ both_polarities_or_irreversible_no-_are_rejected */
__CPROVER_ensures(((TGM(0) || TGM(1)) && !T_HAS_VALUE(IN) && !(T_SHORT(IN) && TG_LETTERS != T_NLETTERS(IN)) && !TG_CONFLICT(0) && !TG_CONFLICT(1)) ==> nitro_exc == 0)   /*@ and_under_no_other_condition */
__CPROVER_ensures(nitro_exc == 0 ==> (__CPROVER_return_value == (TGM(0) || TGM(1))))
__CPROVER_ensures((nitro_exc == 0 && TGM(0)) ==> TG_UPDATED(0))                                                              /*@ every_matching_toggle_is_counted */
__CPROVER_ensures((nitro_exc == 0 && TGM(1)) ==> TG_UPDATED(1))
__CPROVER_ensures((nitro_exc == 0 && __CPROVER_return_value && T_SHORT(IN)) ==> TG_LETTERS == T_NLETTERS(IN))                 /*@ every_letter_of_a_bundle_is_a_declared_toggle */
__CPROVER_ensures(nitro_exc == 0 ==> ((self->n_toggles <= 0 || TG(0)->b.dirty_ || TG(0)->given_ == 0) && (self->n_toggles <= 1 || TG(1)->b.dirty_ || TG(1)->given_ == 0)))   /*@ untouched_toggles_still_count_0 */
__CPROVER_ensures((self->n_toggles > 0 && !TGM(0)) ==> TG_SAME(0))                                                           /*@ other_toggles_untouched */
__CPROVER_ensures((self->n_toggles > 1 && !TGM(1)) ==> TG_SAME(1));
/* ---- prepare / validate / consistency ---- */
#define DECL_KEPT(arr, k) (self->arr[k].b.name_.id == __CPROVER_old(self->arr[k].b.name_.id) && self->arr[k].b.short_.len == __CPROVER_old(self->arr[k].b.short_.len) && self->arr[k].b.short_.b0 == __CPROVER_old(self->arr[k].b.short_.b0) && \
                           self->arr[k].b.env_.len == __CPROVER_old(self->arr[k].b.env_.len) && self->arr[k].b.env_.id == __CPROVER_old(self->arr[k].b.env_.id))
#define DECLS_KEPT ((self->n_opts <= g_oi || (DECL_KEPT(opts, g_oi) && (self->opts[g_oi].default_has != 0) == (__CPROVER_old(self->opts[g_oi].default_has) != 0) && (self->opts[g_oi].is_optional_ != 0) == (__CPROVER_old(self->opts[g_oi].is_optional_) != 0))) && \
                    (self->n_mopts <= g_oi || DECL_KEPT(mopts, g_oi)) && (self->n_toggles <= g_oi || (DECL_KEPT(toggles, g_oi) && (self->toggles[g_oi].reversable_ != 0) == (__CPROVER_old(self->toggles[g_oi].reversable_) != 0))))
#define PARSER_PRE(fn) (nitro_exc == 0 && O_OBJ_OR_OK(fn, self) && self->n_opts <= NITRO_K && self->n_mopts <= NITRO_K && self->n_toggles <= NITRO_K && g_oi < NITRO_K)
void parser_prepare_options(struct oparser *self)
__CPROVER_requires(PARSER_PRE(parser_prepare_options))
__CPROVER_assigns(PARSER_STATE)
__CPROVER_ensures(nitro_exc == 0)
__CPROVER_ensures(g_oi < self->n_opts ==> (!self->opts[g_oi].value_has && !self->opts[g_oi].b.dirty_))                                 /*@ every_option_forgets_the_earlier_parse */
__CPROVER_ensures(g_oi < self->n_mopts ==> (self->mopts[g_oi].value_.count == 0 && !self->mopts[g_oi].b.dirty_))                      /*@ every_multi_option_forgets_the_earlier_parse */
__CPROVER_ensures(g_oi < self->n_toggles ==> (self->toggles[g_oi].given_ == 0 && !self->toggles[g_oi].b.dirty_));                     /*@ every_toggle_forgets_the_earlier_parse */

/* validate_options: every declared option, multi-option and toggle gets its check() (C03 decision table) */
#define OPT_CHECK_PRE(k) (self->n_opts <= (k) || !self->opts[k].b.dirty_ || self->opts[k].value_has)
#define MOPT_CHECK_PRE(k) (self->n_mopts <= (k) || self->mopts[k].value_.count <= OSTR_MAXLEN)
#define O_OLD(k, f) __CPROVER_old(self->opts[k].f)
#define OPT_FROM_ENV(k) (!O_OLD(k, value_has) && self->opts[k].b.env_.len != 0 && g_env_value.len != 0)
#define OPT_RAISES(k) (self->n_opts > (k) && !O_OLD(k, value_has) && !OPT_FROM_ENV(k) && !self->opts[k].default_has && !self->opts[k].is_optional_)
#define OPT_CHECKED(k) (self->n_opts <= (k) || ( \
    (O_OLD(k, value_has) ==> (self->opts[k].value_has && self->opts[k].value_.id == O_OLD(k, value_.id) && self->opts[k].b.dirty_ == O_OLD(k, b.dirty_))) && \
    (OPT_FROM_ENV(k) ==> (self->opts[k].value_has && self->opts[k].value_.id == g_env_value.id && self->opts[k].b.dirty_)) && \
    ((!O_OLD(k, value_has) && !OPT_FROM_ENV(k) && self->opts[k].default_has) ==> (self->opts[k].value_has && self->opts[k].value_.id == self->opts[k].default_.id && self->opts[k].b.dirty_ == O_OLD(k, b.dirty_))) && \
    ((!O_OLD(k, value_has) && !OPT_FROM_ENV(k) && !self->opts[k].default_has) ==> !self->opts[k].value_has)))
#define M_OLD(k, f) __CPROVER_old(self->mopts[k].f)
#define MOPT_FROM_ENV(k) (M_OLD(k, value_.count) == 0 && self->mopts[k].b.env_.len != 0 && g_env_value.len != 0)
#define MOPT_RAISES(k) (self->n_mopts > (k) && M_OLD(k, value_.count) == 0 && !MOPT_FROM_ENV(k) && !self->mopts[k].default_has && !self->mopts[k].is_optional_)
#define MOPT_CHECKED(k) (self->n_mopts <= (k) || ( \
    (M_OLD(k, value_.count) != 0 ==> (self->mopts[k].value_.count == M_OLD(k, value_.count) && self->mopts[k].value_.w_id == M_OLD(k, value_.w_id) && self->mopts[k].b.dirty_ == M_OLD(k, b.dirty_))) && \
    (MOPT_FROM_ENV(k) ==> (self->mopts[k].value_.count == g_pieces_total && (g_w < g_pieces_total ==> self->mopts[k].value_.w_id == g_piece_w_id))) && \
    ((M_OLD(k, value_.count) == 0 && !MOPT_FROM_ENV(k) && self->mopts[k].default_has) ==> (self->mopts[k].value_.count == self->mopts[k].default_.count && self->mopts[k].value_.w_id == self->mopts[k].default_.w_id && self->mopts[k].b.dirty_ == M_OLD(k, b.dirty_)))))
#define T_OLD(k, f) __CPROVER_old(self->toggles[k].f)
#define TOG_FROM_ENV(k) (!T_OLD(k, b.dirty_) && self->toggles[k].b.env_.len != 0 && g_env_value.len != 0)
#define TOG_RAISES(k) (self->n_toggles > (k) && TOG_FROM_ENV(k) && !WORD_TRUTHY(&g_env_value) && !WORD_FALSY(&g_env_value))
#define TOG_CHECKED(k) (self->n_toggles <= (k) || ( \
    (T_OLD(k, b.dirty_) ==> (self->toggles[k].given_ == T_OLD(k, given_) && self->toggles[k].b.dirty_)) && \
    (TOG_FROM_ENV(k) ==> (self->toggles[k].given_ == (WORD_TRUTHY(&g_env_value) ? 1 : 0) && self->toggles[k].b.dirty_)) && \
    ((!T_OLD(k, b.dirty_) && !TOG_FROM_ENV(k)) ==> (self->toggles[k].given_ == self->toggles[k].default_ && !self->toggles[k].b.dirty_))))
void parser_validate_options(struct oparser *self)
__CPROVER_requires(PARSER_PRE(parser_validate_options) && OPT_CHECK_PRE(0) && OPT_CHECK_PRE(1) && MOPT_CHECK_PRE(0) && MOPT_CHECK_PRE(1) && g_pieces_total <= OSTR_MAXLEN)
__CPROVER_assigns(PARSER_STATE, nitro_exc, g_env_name)
__CPROVER_ensures(nitro_exc == 0 || nitro_exc == EXC_PARSING_ERROR)                                                       /*@ only_the_user_input_error */
__CPROVER_ensures((nitro_exc != 0) == (OPT_RAISES(0) || OPT_RAISES(1) || MOPT_RAISES(0) || MOPT_RAISES(1) || TOG_RAISES(0) || TOG_RAISES(1)))   /*@ fails_iff_a_required_option_has_no_source_or_an_environment_word_is_unparsable */
__CPROVER_ensures(nitro_exc == 0 ==> (OPT_CHECKED(0) && OPT_CHECKED(1)))                                                  /*@ options_ranked_command_line_environment_default */
__CPROVER_ensures(nitro_exc == 0 ==> (MOPT_CHECKED(0) && MOPT_CHECKED(1)))                                                /*@ multi_options_ranked_command_line_environment_default */
__CPROVER_ensures(nitro_exc == 0 ==> (TOG_CHECKED(0) && TOG_CHECKED(1)));                                                 /*@ toggles_ranked_command_line_environment_default */

/* check_parser_consistency: refuses (developer error) iff two declared options share a letter */
static inline nbool parser_dup_letters_v(struct oparser p)
{
    size_t s[6];
    s[0] = (p.n_opts > 0 && p.opts[0].b.short_.len != 0) ? LETTER_SLOT(p.opts[0].b.short_.b0) : NITRO_NL;
    s[1] = (p.n_opts > 1 && p.opts[1].b.short_.len != 0) ? LETTER_SLOT(p.opts[1].b.short_.b0) : NITRO_NL;
    s[2] = (p.n_mopts > 0 && p.mopts[0].b.short_.len != 0) ? LETTER_SLOT(p.mopts[0].b.short_.b0) : NITRO_NL;
    s[3] = (p.n_mopts > 1 && p.mopts[1].b.short_.len != 0) ? LETTER_SLOT(p.mopts[1].b.short_.b0) : NITRO_NL;
    s[4] = (p.n_toggles > 0 && p.toggles[0].b.short_.len != 0) ? LETTER_SLOT(p.toggles[0].b.short_.b0) : NITRO_NL;
    s[5] = (p.n_toggles > 1 && p.toggles[1].b.short_.len != 0) ? LETTER_SLOT(p.toggles[1].b.short_.b0) : NITRO_NL;
#define SAME(a, b) (s[a] != NITRO_NL && s[a] == s[b])
    return SAME(0, 1) || SAME(0, 2) || SAME(0, 3) || SAME(0, 4) || SAME(0, 5) || SAME(1, 2) || SAME(1, 3) || SAME(1, 4) || SAME(1, 5) ||
           SAME(2, 3) || SAME(2, 4) || SAME(2, 5) || SAME(3, 4) || SAME(3, 5) || SAME(4, 5);
#undef SAME
}
#define DECL_LETTERS_IN_TABLE (LETTERS_WF && (self->n_opts <= 0 || BASE_WF_V(self->opts[0].b)) && (self->n_opts <= 1 || BASE_WF_V(self->opts[1].b)) && (self->n_mopts <= 0 || BASE_WF_V(self->mopts[0].b)) && \
    (self->n_mopts <= 1 || BASE_WF_V(self->mopts[1].b)) && (self->n_toggles <= 0 || BASE_WF_V(self->toggles[0].b)) && (self->n_toggles <= 1 || BASE_WF_V(self->toggles[1].b)))
void parser_check_consistency(struct oparser *self)
__CPROVER_requires(PARSER_PRE(parser_check_consistency) && DECL_LETTERS_IN_TABLE)
__CPROVER_assigns(nitro_exc)
__CPROVER_ensures(nitro_exc == 0 || nitro_exc == EXC_PARSER_ERROR)
__CPROVER_ensures((nitro_exc != 0) == parser_dup_letters_v(*self));                                                       /*@ refuses_to_parse_iff_two_options_share_a_letter */

void parser_greedy_postionals(struct oparser *self, nbool enabled)
__CPROVER_requires(nitro_exc == 0 && O_OBJ(self))
__CPROVER_assigns(self->greedy_positionals_)
__CPROVER_ensures(self->greedy_positionals_ == enabled);
void parser_accept_positionals(struct oparser *self, size_t amount)
__CPROVER_requires(nitro_exc == 0 && O_OBJ(self))
__CPROVER_assigns(self->allowed_positionals_)
__CPROVER_ensures(self->allowed_positionals_ == amount);

/* ======================= parse ======================= */
extern size_t g_pn;                                                         /* witness option name for provided() */
struct oprovided { nbool w_in; };                                           /* std::set<std::string> provided: membership of the witness name */
static inline void oprovided_init(struct oprovided *s) { s->w_in = 0; }
static inline void oprovided_insert(struct oprovided *s, const struct ostr *name) { if (name->id == g_pn) s->w_in = 1; }
struct oarguments { struct oparser *parser_; struct ovec positionals_; struct oprovided provided_; };

/* ---- the reference semantics of ONE command line token (transcribed from properties C01-C04, C11, C12), by value ----
 * parse() = prologue; for each token: step; epilogue.  The state carried from token to token: */
enum { CLS_NONE = 0, CLS_POSITIONAL = 1, CLS_DOUBLE_DASH = 2, CLS_OPTION = 3, CLS_TOGGLE = 5 };
enum { STEP_RAISED = 0, STEP_NEXT = 1 };
struct pstate
{
    nbool mode;                        /* everything from here on is positional */
    size_t pc; size_t pw_id;           /* number of positionals so far; identity of positional number g_w */
    struct { nbool has; size_t id; nbool dirty; } opt[NITRO_K];
    struct { size_t count; size_t w_id; nbool dirty; } mopt[NITRO_K];
    struct { int given; nbool dirty; } tog[NITRO_K];
};
struct pstep { struct pstate s; nbool err; int cls; int advance; /* 1: the next token was consumed as this option's value */ };
#define SP_VALUE(t) (OSTR_NAMELEN_V(t) == 0 || (t).b0 != '-')
#define SP_DD(t) ((t).id == OSTR_ID_DD)
#define SP_SHORT(t) (OSTR_NAMELEN_V(t) > 1 && (t).b0 == '-' && (t).b1 != '-')
#define SP_NAMED(t) (OSTR_NAMELEN_V(t) > 2 && (t).b0 == '-' && (t).b1 == '-' && (t).b2 != '-')
#define SP_HAS_VALUE(t) (SP_VALUE(t) || (t).eq != NITRO_NPOS)
#define SP_LCOUNT(b, t) ((b).short_.b0 == g_letters[0] ? (t).lcount[0] : (b).short_.b0 == g_letters[1] ? (t).lcount[1] : (b).short_.b0 == g_letters[2] ? (t).lcount[2] : (t).lcount[3])
#define SP_LETTER(b, t) ((b).short_.len != 0 && SP_SHORT(t) && !(OSTR_NAMELEN_V(t) > 2 && SP_HAS_VALUE(t)) && SP_LCOUNT(b, t) > 0)   /* the letter occurs in a short token (a bundle carrying =value names nothing) */
#define SP_LONG(b, t) (!((b).short_.len != 0 && SP_SHORT(t)) && SP_NAMED(t) && (t).name_sub2_id == (b).name_.id)                       /* --<name> */
#define SP_NAMES(b, t) (SP_LETTER(b, t) || SP_LONG(b, t))
#define SP_NO(b, t) ((t).name_has_no && (t).name_sub5_id == (b).name_.id)                                                             /* --no-<name> */
static inline struct pstate pstate_of_v(struct oparser p, nbool mode, struct ovec positionals)
{
    struct pstate s;
    s.mode = mode; s.pc = positionals.count; s.pw_id = positionals.w_id;
    for (int k = 0; k < NITRO_K; ++k)
    {
        s.opt[k].has = p.opts[k].value_has; s.opt[k].id = p.opts[k].value_.id; s.opt[k].dirty = p.opts[k].b.dirty_;
        s.mopt[k].count = p.mopts[k].value_.count; s.mopt[k].w_id = p.mopts[k].value_.w_id; s.mopt[k].dirty = p.mopts[k].b.dirty_;
        s.tog[k].given = p.toggles[k].given_; s.tog[k].dirty = p.toggles[k].b.dirty_;
    }
    return s;
}
static inline struct pstep pstep_spec_v(struct oparser p, struct pstate s0, struct ostr t, nbool has_next, struct ostr nxt)
{
    struct pstep r; r.s = s0; r.err = 0; r.cls = CLS_NONE; r.advance = 0;
    if (s0.mode || SP_VALUE(t))
    {   /* C12: value tokens, and every token after the first -- (or after the first positional in greedy mode) */
        if (s0.pc == p.allowed_positionals_) { r.err = 1; return r; }                                  /* more positionals than accepted */
        r.cls = CLS_POSITIONAL;
        if (s0.pc == g_w) r.s.pw_id = t.id;                                                            /* verbatim, in order */
        r.s.pc = s0.pc + 1;
        if (p.greedy_positionals_) r.s.mode = 1;
        return r;
    }
    if (SP_DD(t)) { r.cls = CLS_DOUBLE_DASH; r.s.mode = 1; return r; }
    /* C01/C02: a value-taking option, by long name or by its letter alone */
    int ko = -1, km = -1;
    for (int k = NITRO_K - 1; k >= 0; --k) { if ((size_t)k < p.n_opts && SP_NAMES(p.opts[k].b, t)) ko = k; }
    if (ko < 0) for (int k = NITRO_K - 1; k >= 0; --k) { if ((size_t)k < p.n_mopts && SP_NAMES(p.mopts[k].b, t)) km = k; }
    if (ko >= 0 || km >= 0)
    {
        if (SP_SHORT(t) && OSTR_NAMELEN_V(t) > 2) { r.err = 1; return r; }                             /* a value-taking option's letter hidden inside a bundle */
        size_t vid;
        if (SP_HAS_VALUE(t)) vid = t.value_id;                                                         /* --name=value, -s=value: the text after the first '=' */
        else
        {   /* --name value, -s value: the next token, which must exist and must not look like an option */
            if (!has_next || !SP_VALUE(nxt)) { r.err = 1; return r; }
            vid = nxt.id; r.advance = 1;
        }
        r.cls = CLS_OPTION;
        if (ko >= 0)
        {
            if (s0.opt[ko].has) { r.err = 1; return r; }                                               /* single-valued option given twice, in any mix of spellings */
            r.s.opt[ko].has = 1; r.s.opt[ko].id = vid; r.s.opt[ko].dirty = 1;
        }
        else
        {
            if (s0.mopt[km].count == g_w) r.s.mopt[km].w_id = vid;                                     /* values keep command line order */
            r.s.mopt[km].count = s0.mopt[km].count + 1; r.s.mopt[km].dirty = 1;
        }
        return r;
    }
    /* C11: toggles - long spelling, --no- spelling, or letters of a bundle in which EVERY letter is a declared toggle */
    nbool any = 0; size_t letters = 0;
    for (int k = 0; k < NITRO_K; ++k)
    {
        if ((size_t)k >= p.n_toggles) continue;
        nbool pos = SP_NAMES(p.toggles[k].b, t), neg = SP_NO(p.toggles[k].b, t);
        if (!pos && !neg) continue;
        any = 1;
        if (SP_HAS_VALUE(t)) { r.err = 1; continue; }                                                  /* =value on a toggle */
        if (pos)
        {
            if (s0.tog[k].dirty && s0.tog[k].given == 0) { r.err = 1; continue; }                       /* --no-x earlier, x now */
            r.s.tog[k].given = s0.tog[k].given + (SP_SHORT(t) ? (int)SP_LCOUNT(p.toggles[k].b, t) : 1); /* each long spelling and each occurrence of the letter adds one */
            if (SP_SHORT(t)) letters += SP_LCOUNT(p.toggles[k].b, t);
        }
        else
        {
            if (!p.toggles[k].reversable_ || (s0.tog[k].dirty && s0.tog[k].given > 0)) { r.err = 1; continue; }
            r.s.tog[k].given = 0;
        }
        r.s.tog[k].dirty = 1;
    }
    if (!any) { r.err = 1; return r; }                                                                 /* unknown name or letter: never silently ignored */
    if (SP_SHORT(t) && letters != OSTR_NAMELEN_V(t) - 1) r.err = 1;                                     /* a letter of the bundle is no declared toggle */
    r.cls = CLS_TOGGLE;
    return r;
}
static inline nbool pstate_eq_v(struct pstate x, struct pstate y, struct oparser p)
{
    nbool e = (x.mode != 0) == (y.mode != 0) && x.pc == y.pc && (g_w >= x.pc || x.pw_id == y.pw_id);
    for (int k = 0; k < NITRO_K; ++k)
    {
        if ((size_t)k < p.n_opts) e = e && (x.opt[k].has != 0) == (y.opt[k].has != 0) && (!x.opt[k].has || x.opt[k].id == y.opt[k].id) && (x.opt[k].dirty != 0) == (y.opt[k].dirty != 0);
        if ((size_t)k < p.n_mopts) e = e && x.mopt[k].count == y.mopt[k].count && (g_w >= x.mopt[k].count || x.mopt[k].w_id == y.mopt[k].w_id) && (x.mopt[k].dirty != 0) == (y.mopt[k].dirty != 0);
        if ((size_t)k < p.n_toggles) e = e && x.tog[k].given == y.tog[k].given && (x.tog[k].dirty != 0) == (y.tog[k].dirty != 0);
    }
    return e;
}
static inline nbool pstep_is_spec_v(struct pstep g, struct oparser p, nbool mode, struct ovec positionals, struct ostr t, nbool has_next, struct ostr nxt)
{
    struct pstep r = pstep_spec_v(p, pstate_of_v(p, mode, positionals), t, has_next, nxt);
    return (g.err != 0) == (r.err != 0) && g.cls == r.cls && g.advance == r.advance && pstate_eq_v(g.s, r.s, p);
}
/* declarations are unambiguous, short names are in the letter table, toggle states are in range, and the token is outside the known-finding region */
static inline nbool parse_decl_ok_v(struct oparser p)
{
    nbool ok = p.n_opts <= NITRO_K && p.n_mopts <= NITRO_K && p.n_toggles <= NITRO_K && LETTERS_WF;
    for (int k = 0; k < NITRO_K; ++k)
    {
        ok = ok && ((size_t)k >= p.n_opts || (p.opts[k].b.short_.len <= 1 && (p.opts[k].b.short_.len == 0 || LETTER_SLOT(p.opts[k].b.short_.b0) < NITRO_NL)));
        ok = ok && ((size_t)k >= p.n_mopts || (p.mopts[k].b.short_.len <= 1 && (p.mopts[k].b.short_.len == 0 || LETTER_SLOT(p.mopts[k].b.short_.b0) < NITRO_NL)));
        ok = ok && ((size_t)k >= p.n_toggles || (p.toggles[k].b.short_.len <= 1 && (p.toggles[k].b.short_.len == 0 || LETTER_SLOT(p.toggles[k].b.short_.b0) < NITRO_NL)));
    }
    return ok;
}
static inline nbool parse_unambiguous_v(struct oparser p)
{
    /* one meaning per long name (what the declaration functions guarantee, C13) and per letter (what check_parser_consistency guarantees) */
    size_t ids[3 * NITRO_K]; nbool used[3 * NITRO_K]; nbool ok = 1;
    for (int k = 0; k < NITRO_K; ++k)
    {
        ids[k] = p.opts[k].b.name_.id; used[k] = (size_t)k < p.n_opts;
        ids[NITRO_K + k] = p.mopts[k].b.name_.id; used[NITRO_K + k] = (size_t)k < p.n_mopts;
        ids[2 * NITRO_K + k] = p.toggles[k].b.name_.id; used[2 * NITRO_K + k] = (size_t)k < p.n_toggles;
    }
    for (int x = 0; x < 3 * NITRO_K; ++x) for (int y = x + 1; y < 3 * NITRO_K; ++y) ok = ok && !(used[x] && used[y] && ids[x] == ids[y]);
    return ok && !parser_dup_letters_v(p);
}
static inline nbool parse_state_ok_v(struct oparser p, struct ostr t)
{
    nbool ok = 1;
    for (int k = 0; k < NITRO_K; ++k)
    {
        ok = ok && ((size_t)k >= p.n_toggles || (p.toggles[k].given_ >= 0 && p.toggles[k].given_ < (1 << 30) && (p.toggles[k].b.dirty_ || p.toggles[k].given_ == 0)));
        ok = ok && ((size_t)k >= p.n_mopts || p.mopts[k].value_.count < OSTR_MAXLEN);
#if KF_toggle_named_no && !(NITRO_KF_REGION && defined(NITRO_KF_SEL_toggle_named_no))
        ok = ok && ((size_t)k >= p.n_toggles || !(t.name_has_no && SP_NAMED(t) && t.name_sub2_id == p.toggles[k].b.name_.id));
#endif
    }
    return ok;
}

/* parse(), part 1: consistency check and reset */
extern nbool g_dup;             /* whether the declarations on entry share a letter (tied by a precondition) */
void parser_parse_prologue(struct oparser *self, nbool *mode_ref, struct ovec *positionals_ref)
__CPROVER_requires(nitro_exc == 0 && O_OBJ_OR_OK(parser_parse_prologue, self) && O_OBJ_OR_OK(parser_parse_prologue, mode_ref) && O_OBJ_OR_OK(parser_parse_prologue, positionals_ref))
__CPROVER_requires(parse_decl_ok_v(*self) && g_oi < NITRO_K && (g_dup != 0) == (parser_dup_letters_v(*self) != 0))
__CPROVER_assigns(PARSER_STATE, *mode_ref, *positionals_ref, nitro_exc)
__CPROVER_ensures(nitro_exc == 0 || nitro_exc == EXC_PARSER_ERROR)
__CPROVER_ensures((nitro_exc != 0) == (g_dup != 0))                                                          /*@ two_options_sharing_a_letter_refuse_to_parse */
__CPROVER_ensures(nitro_exc == 0 ==> (!*mode_ref && positionals_ref->count == 0))                                          /*@ starts_outside_positional_mode_without_positionals */
__CPROVER_ensures((nitro_exc == 0 && g_oi < self->n_opts) ==> (!self->opts[g_oi].value_has && !self->opts[g_oi].b.dirty_))   /*@ nothing_of_an_earlier_parse_survives */
__CPROVER_ensures((nitro_exc == 0 && g_oi < self->n_mopts) ==> (self->mopts[g_oi].value_.count == 0 && !self->mopts[g_oi].b.dirty_))
__CPROVER_ensures((nitro_exc == 0 && g_oi < self->n_toggles) ==> (self->toggles[g_oi].given_ == 0 && !self->toggles[g_oi].b.dirty_));

/* exhaustive case distinction over the token (the last case is the complement of the others): one verification job per case */
#define STEP_I (*it_ref)
#define STEP_T (args->a[STEP_I].arg_)
#define STEP_A ((*mode_ref) != 0 || SP_VALUE(STEP_T) || SP_DD(STEP_T))
#define STEP_B ((self->n_opts > 0 && SP_NAMES(self->opts[0].b, STEP_T)) || (self->n_opts > 1 && SP_NAMES(self->opts[1].b, STEP_T)))
#define STEP_C ((self->n_mopts > 0 && SP_NAMES(self->mopts[0].b, STEP_T)) || (self->n_mopts > 1 && SP_NAMES(self->mopts[1].b, STEP_T)))
#ifndef NITRO_CASE_parser_parse_step
#define STEP_CASE 1
#elif NITRO_CASE_parser_parse_step == 0
#define STEP_CASE (STEP_A)
#elif NITRO_CASE_parser_parse_step == 1
#define STEP_CASE (!STEP_A && STEP_B)
#elif NITRO_CASE_parser_parse_step == 2
#define STEP_CASE (!STEP_A && !STEP_B && STEP_C)
#else
#define STEP_CASE (!STEP_A && !STEP_B && !STEP_C)
#endif
/* parse(), part 2: one execution of the body of the token loop (the induction step over the argument vector) */
extern struct pstep g_step;     /* the reference result for the state and token of the call under verification (tied by a precondition) */
int parser_parse_step(struct oparser *self, const struct oargs *args, size_t *it_ref, nbool *mode_ref, struct ovec *positionals_ref)
__CPROVER_requires(nitro_exc == 0 && __CPROVER_rw_ok(self, sizeof(*self)) && __CPROVER_r_ok(args, sizeof(*args)) && __CPROVER_rw_ok(it_ref, sizeof(*it_ref)) && __CPROVER_rw_ok(mode_ref, sizeof(*mode_ref)) && __CPROVER_rw_ok(positionals_ref, sizeof(*positionals_ref)))
__CPROVER_requires(args->n <= NITRO_NARGS && STEP_I == 0 && STEP_I < args->n && g_oi < NITRO_K && parse_decl_ok_v(*self) && parse_unambiguous_v(*self) && parse_state_ok_v(*self, STEP_T))
__CPROVER_requires(ui_wf_v(args->a[STEP_I]) && STEP_T.len < (1 << 20) && (STEP_I + 1 == args->n || ui_wf_v(args->a[STEP_I + 1])) && positionals_ref->count < OSTR_MAXLEN && positionals_ref->count <= self->allowed_positionals_)
__CPROVER_requires(STEP_CASE)
__CPROVER_requires(pstep_is_spec_v(g_step, *self, *mode_ref, *positionals_ref, STEP_T, STEP_I + 1 != args->n, args->a[STEP_I + 1 != args->n ? STEP_I + 1 : STEP_I].arg_))
__CPROVER_assigns(PARSER_STATE, *it_ref, *mode_ref, *positionals_ref, nitro_exc, g_at_next, g_at_hits, g_at_other)
__CPROVER_ensures(nitro_exc == 0 || nitro_exc == EXC_PARSING_ERROR)                                                         /*@ bad_user_input_ends_in_the_user_input_error_only */
__CPROVER_ensures((nitro_exc != 0) == (g_step.err != 0))                                                                   /*@ rejected_exactly_under_the_documented_conditions */
__CPROVER_ensures(nitro_exc == 0 ==> pstate_eq_v(pstate_of_v(*self, *mode_ref, *positionals_ref), g_step.s, *self))         /*@ the_token_has_exactly_its_documented_effect */
__CPROVER_ensures(nitro_exc == 0 ==> g_step.cls != CLS_NONE)                                                               /*@ every_token_is_accounted_for */
__CPROVER_ensures(nitro_exc == 0 ==> *it_ref == __CPROVER_old(*it_ref) + (size_t)g_step.advance)                                              /*@ consumes_the_next_token_only_as_an_option_value */
__CPROVER_ensures(nitro_exc == 0 ==> ((self->n_toggles <= 0 || self->toggles[0].b.dirty_ || self->toggles[0].given_ == 0) && (self->n_toggles <= 1 || self->toggles[1].b.dirty_ || self->toggles[1].given_ == 0)))   /*@ state_invariant_kept */
__CPROVER_ensures(nitro_exc == 0 ==> positionals_ref->count <= self->allowed_positionals_);                                 /*@ never_more_positionals_than_accepted */

/* parse(), part 3: value sources are ranked (C03), `provided` is computed, the result object is built */
void parser_parse_epilogue(struct oarguments *ret, struct oparser *self, struct ovec *positionals_ref)
__CPROVER_requires(nitro_exc == 0 && O_OBJ_OR_OK(parser_parse_epilogue, ret) && O_OBJ_OR_OK(parser_parse_epilogue, self) && O_OBJ_OR_OK(parser_parse_epilogue, positionals_ref))
__CPROVER_requires(parse_decl_ok_v(*self) && g_oi < NITRO_K && OPT_CHECK_PRE(0) && OPT_CHECK_PRE(1) && MOPT_CHECK_PRE(0) && MOPT_CHECK_PRE(1) && g_pieces_total <= OSTR_MAXLEN)
__CPROVER_assigns(*ret, PARSER_STATE, nitro_exc, g_env_name)
__CPROVER_ensures(nitro_exc == 0 || nitro_exc == EXC_PARSING_ERROR)
__CPROVER_ensures((nitro_exc != 0) == (OPT_RAISES(0) || OPT_RAISES(1) || MOPT_RAISES(0) || MOPT_RAISES(1) || TOG_RAISES(0) || TOG_RAISES(1)))   /*@ fails_iff_a_required_option_has_no_source_or_an_environment_word_is_unparsable */
__CPROVER_ensures(nitro_exc == 0 ==> (OPT_CHECKED(0) && OPT_CHECKED(1) && MOPT_CHECKED(0) && MOPT_CHECKED(1) && TOG_CHECKED(0) && TOG_CHECKED(1)))   /*@ sources_ranked_command_line_environment_default */
__CPROVER_ensures(nitro_exc == 0 ==> (ret->positionals_.count == positionals_ref->count && ret->positionals_.w_id == positionals_ref->w_id))      /*@ positionals_reported_verbatim_in_order */
__CPROVER_ensures(nitro_exc == 0 ==> ((ret->provided_.w_in != 0) == ((self->n_opts > 0 && self->opts[0].b.dirty_ && self->opts[0].b.name_.id == g_pn) || (self->n_opts > 1 && self->opts[1].b.dirty_ && self->opts[1].b.name_.id == g_pn) ||
      (self->n_mopts > 0 && self->mopts[0].b.dirty_ && self->mopts[0].b.name_.id == g_pn) || (self->n_mopts > 1 && self->mopts[1].b.dirty_ && self->mopts[1].b.name_.id == g_pn) ||
      (self->n_toggles > 0 && self->toggles[0].b.dirty_ && self->toggles[0].b.name_.id == g_pn) || (self->n_toggles > 1 && self->toggles[1].b.dirty_ && self->toggles[1].b.name_.id == g_pn))));   /*@ provided_iff_value_came_from_command_line_or_environment */
/* ---- parse(argc, argv) ---- */
extern nbool g_parse_called; extern struct oargs g_parse_args;
/* parse(vector): verified as prologue / step / epilogue; here only what it was called with is recorded */
void parser_parse(struct oarguments *ret, struct oparser *self, const struct oargs *args)
__CPROVER_requires(nitro_exc == 0 && __CPROVER_rw_ok(ret, sizeof(*ret)) && __CPROVER_r_ok(args, sizeof(*args)))
__CPROVER_assigns(*ret, nitro_exc, g_parse_called, g_parse_args)
__CPROVER_ensures(g_parse_called && g_parse_args.n == args->n && g_parse_args.a[0].arg_.id == args->a[0].arg_.id && g_parse_args.a[1].arg_.id == args->a[1].arg_.id && g_parse_args.a[2].arg_.id == args->a[2].arg_.id)
__CPROVER_ensures(nitro_exc == 0 || nitro_exc == EXC_PARSING_ERROR || nitro_exc == EXC_PARSER_ERROR);
#define AV_IN(i) ((i) < argc)
#define AV_M(i) (AV_IN(i) && T_MALFORMED(&argv[i]))
#define AV_D(i) (AV_IN(i) && T_DD(&argv[i]))
#define AV_V(i) (AV_IN(i) && T_VALUE(&argv[i]))
#define AV_G (self->greedy_positionals_ != 0)
#define AV_BAD_ANY (AV_M(1) || AV_M(2) || AV_M(3))
/* the first malformed dash token stands ahead of every -- and (in greedy mode) of every value token: C04 wants the user-input error */
#define AV_MUST_RAISE (AV_M(1) || (!AV_M(1) && AV_M(2) && !AV_D(1) && !(AV_G && AV_V(1))) || (!AV_M(1) && !AV_M(2) && AV_M(3) && !(AV_D(1) || AV_D(2)) && !(AV_G && (AV_V(1) || AV_V(2)))))
/* the first malformed dash token stands after a --: C12 wants it to be a positional.  KNOWN FINDING malformed_dash_in_positional_part */
#define AV_AFTER_DD ((!AV_M(1) && AV_M(2) && AV_D(1)) || (!AV_M(1) && !AV_M(2) && AV_M(3) && (AV_D(1) || AV_D(2))))
#if NITRO_KF_REGION && defined(NITRO_KF_SEL_malformed_dash_in_positional_part)
#define AV_KF_PRE AV_AFTER_DD
#else
#define AV_KF_PRE (!KF_malformed_dash_in_positional_part || !AV_AFTER_DD)
#endif
void parser_parse_argv(struct oarguments *ret, struct oparser *self, int argc, const struct ostr *argv)
__CPROVER_requires(nitro_exc == 0 && O_OBJ_OR_OK(parser_parse_argv, ret) && O_OBJ_OR_OK(parser_parse_argv, self) && argc <= NITRO_NARGS + 1 && __CPROVER_r_ok(argv, (NITRO_NARGS + 1) * sizeof(struct ostr)))
__CPROVER_requires(ostr_wf_v(argv[1]) && ostr_wf_v(argv[2]) && ostr_wf_v(argv[3]) && !g_parse_called && AV_KF_PRE)
__CPROVER_assigns(*ret, nitro_exc, g_parse_called, g_parse_args)
__CPROVER_ensures(nitro_exc == 0 || nitro_exc == EXC_PARSING_ERROR || nitro_exc == EXC_PARSER_ERROR)
__CPROVER_ensures(AV_MUST_RAISE ==> (nitro_exc == EXC_PARSING_ERROR && !g_parse_called))                                        /*@ malformed_dash_token_ahead_of_the_positional_part_is_the_user_input_error */
__CPROVER_ensures(AV_AFTER_DD ==> g_parse_called)                                                                             /*@ a_token_after_the_first_double_dash_is_never_rejected_for_its_looks */
__CPROVER_ensures(!AV_BAD_ANY ==> (g_parse_called && g_parse_args.n == (size_t)(argc > 1 ? argc - 1 : 0)))                    /*@ every_word_but_the_program_name_is_parsed */
__CPROVER_ensures((!AV_BAD_ANY && g_w < g_parse_args.n && g_w < NITRO_NARGS) ==> g_parse_args.a[g_w < NITRO_NARGS ? g_w : 0].arg_.id == argv[(g_w < NITRO_NARGS ? g_w : 0) + 1].id);   /*@ verbatim_and_in_order */

/* ======================= declarations (C13) ======================= */
/* short_name(s): exactly one character, and never changed once set */
#define SN_REJECT ((short_name->len != 1) || (__CPROVER_old(self->short_.len) != 0 && __CPROVER_old(self->short_.id) != short_name->id))
struct obase *crtp_short_name_set(struct obase *self, const struct ostr *short_name)
__CPROVER_requires(nitro_exc == 0 && O_OBJ_OR_OK(crtp_short_name_set, self) && O_OBJ_OR_ROK(crtp_short_name_set, short_name))
__CPROVER_assigns(self->short_, nitro_exc)
__CPROVER_ensures(nitro_exc == 0 || nitro_exc == EXC_PARSER_ERROR)
__CPROVER_ensures(SN_REJECT == (nitro_exc != 0))                                                                            /*@ rejected_iff_not_one_character_or_a_different_letter_is_already_set */
__CPROVER_ensures(nitro_exc != 0 ==> (self->short_.id == __CPROVER_old(self->short_.id) && self->short_.len == __CPROVER_old(self->short_.len)))   /*@ a_rejected_call_changes_nothing */
__CPROVER_ensures(nitro_exc == 0 ==> (self->short_.id == short_name->id && self->short_.len == 1 && self->short_.b0 == short_name->b0 && __CPROVER_return_value == self));

/* std::map<std::string, T> seen through ONE key - the name being declared: does the map hold it, and the object mapped to it */
struct omapk { nbool has; nbool nonempty; struct obase elem; };    /* nonempty: the map holds some key (has ==> nonempty) */
struct oemplaced { struct obase *first; nbool second; };
extern const struct obase *g_ord_obj;                        /* witness: an option object whose entries in order_ are counted */
struct oorder { size_t count; const struct obase *last; size_t w_cnt; const struct obase *w_elem; };     /* std::vector<base*> order_: length, last entry, number of entries naming g_ord_obj, entry number g_w */
#ifndef NITRO_G
#define NITRO_G 2          /* groups of a parser in the verification of the declaration functions: the group declared into and one other (bound) */
#endif
struct oparser2;
struct ogroup { const struct oparser2 *parser_; struct omapk options_, multi_options_, toggles_; struct oorder order_; };
struct oparser2 { size_t n_groups; struct ogroup groups[NITRO_G]; };         /* std::map<std::string, group> groups_ */
extern nbool g_any;                                          /* whether the name is declared anywhere in g_holder on entry (tied by a precondition) */
extern const struct oparser2 *g_holder;                      /* the parser whose groups_ holds the group being declared into */
static inline void omapk_init(struct omapk *m) { m->has = 0; m->nonempty = 0; }
static inline nbool omapk_empty(const struct omapk *m) { return !m->nonempty; }
static inline size_t omapk_count(const struct omapk *m, const struct ostr *name) { return m->has ? 1 : 0; }
static inline void omapk_merge(struct omapk *tmp, const struct omapk *from) { if (from->has) tmp->has = 1; if (from->nonempty) tmp->nonempty = 1; }     /* for (e : from) tmp.emplace(e.first, &e.second) */
static inline struct oemplaced omapk_emplace(struct omapk *m, const struct ostr *name, const struct ostr *description)
{
    struct oemplaced r; r.first = &m->elem; r.second = !m->has;
    if (!m->has) { m->has = 1; m->nonempty = 1; m->elem.name_ = *name; m->elem.short_.len = 0; m->elem.env_.len = 0; m->elem.dirty_ = 0; }    /* T(name, description) */
    return r;
}
static inline void oorder_push_back(struct oorder *o, const struct obase *e) { if (o->count == g_w) o->w_elem = e; if (o->count != ~(size_t)0) o->count = o->count + 1; o->last = e; if (e == g_ord_obj && o->w_cnt != ~(size_t)0) o->w_cnt = o->w_cnt + 1; }
#define GRP_HAS(P, g) ((P)->n_groups > (g) && ((P)->groups[g].options_.has || (P)->groups[g].multi_options_.has || (P)->groups[g].toggles_.has))
#define GRP_CNT(P, g) ((P)->n_groups > (g) ? ((P)->groups[g].options_.has ? 1 : 0) + ((P)->groups[g].multi_options_.has ? 1 : 0) + ((P)->groups[g].toggles_.has ? 1 : 0) : 0)
#define NAME_ANY(P) (GRP_HAS(P, 0) || GRP_HAS(P, 1))
#define NAME_UNIQUE(P) (GRP_CNT(P, 0) + GRP_CNT(P, 1) <= 1)                  /* the long name denotes at most one option across all groups and kinds */
#define GA_CONTRACT(kind, member) \
void parser_get_all_##kind(struct omapk *tmp, const struct oparser2 *self) \
__CPROVER_requires(nitro_exc == 0 && O_OBJ_OR_OK(parser_get_all_##kind, tmp) && O_OBJ_OR_ROK(parser_get_all_##kind, self) && self->n_groups <= NITRO_G) \
__CPROVER_assigns(*tmp) \
__CPROVER_ensures(nitro_exc == 0 && (tmp->has != 0) == ((self->n_groups > 0 && self->groups[0].member.has) || (self->n_groups > 1 && self->groups[1].member.has)))
GA_CONTRACT(options, options_);
GA_CONTRACT(multi_options, multi_options_);
GA_CONTRACT(toggles, toggles_);
nbool parser_has_option_with_name(const struct oparser2 *self, const struct ostr *name)
__CPROVER_requires(nitro_exc == 0 && O_OBJ_OR_ROK(parser_has_option_with_name, self) && self->n_groups <= NITRO_G)
__CPROVER_assigns()
__CPROVER_ensures(nitro_exc == 0 && (__CPROVER_return_value != 0) == NAME_ANY(self));                                       /*@ true_iff_any_group_holds_the_name_in_any_kind */

/* KNOWN FINDING parser_move_stale_backref: a group names its parser by reference; after the parser object has been moved, the groups in the
 * new object still name the moved-from one, whose groups_ is empty: re-declarations are no longer seen */
#if NITRO_KF_REGION && defined(NITRO_KF_SEL_parser_move_stale_backref)
#define GRP_KF_PRE (self->parser_ != g_holder)
#else
#define GRP_KF_PRE (!KF_parser_move_stale_backref || self->parser_ == g_holder)
#endif
#define GRP_PRE(fn) (nitro_exc == 0 && __CPROVER_r_ok(g_holder, sizeof(*g_holder)) && g_holder->n_groups <= NITRO_G && \
    ((self == &g_holder->groups[0] && g_holder->n_groups > 0) || (self == &g_holder->groups[1] && g_holder->n_groups > 1)) && __CPROVER_rw_ok(self, sizeof(*self)) && \
    __CPROVER_r_ok(self->parser_, sizeof(*self->parser_)) && self->parser_->n_groups <= NITRO_G && __CPROVER_r_ok(name, sizeof(*name)) && __CPROVER_r_ok(description, sizeof(*description)) && \
    NAME_UNIQUE(g_holder) && (g_any != 0) == NAME_ANY(g_holder) && GRP_KF_PRE)
#define GRP_DECL_CONTRACT(fn, member) \
struct obase *group_##fn(struct ogroup *self, const struct ostr *name, const struct ostr *description) \
__CPROVER_requires(GRP_PRE(group_##fn)) \
__CPROVER_assigns(self->member, self->order_, nitro_exc) \
__CPROVER_ensures(nitro_exc == 0 || nitro_exc == EXC_PARSER_ERROR) \
__CPROVER_ensures(NAME_UNIQUE(g_holder))                                                       /*@ one_meaning_per_long_name_across_groups_and_kinds */ \
__CPROVER_ensures(((g_any != 0) && !__CPROVER_old(self->member.has)) ==> (nitro_exc == EXC_PARSER_ERROR && !self->member.has && self->order_.count == __CPROVER_old(self->order_.count)))   /*@ any_other_redeclaration_is_a_developer_error */ \
__CPROVER_ensures(__CPROVER_old(self->member.has) ==> (nitro_exc == 0 && __CPROVER_return_value == &self->member.elem && self->member.has && self->member.elem.name_.id == __CPROVER_old(self->member.elem.name_.id) && \
                  self->order_.count == __CPROVER_old(self->order_.count) && self->order_.w_cnt == __CPROVER_old(self->order_.w_cnt)))   /*@ same_name_same_kind_same_group_returns_the_identical_object */ \
__CPROVER_ensures(!(g_any != 0) ==> (nitro_exc == 0 && __CPROVER_return_value == &self->member.elem && self->member.has && self->member.elem.name_.id == name->id && self->member.elem.short_.len == 0 && \
                  (__CPROVER_old(self->order_.count) != ~(size_t)0 ==> self->order_.count == __CPROVER_old(self->order_.count) + 1) && self->order_.last == &self->member.elem && (__CPROVER_old(self->order_.count) == g_w ==> self->order_.w_elem == &self->member.elem)))   /*@ a_new_name_is_declared_and_listed_last */ \
__CPROVER_ensures((!(g_any != 0) && g_ord_obj == &self->member.elem && __CPROVER_old(self->order_.w_cnt) == 0) ==> self->order_.w_cnt == 1)   /*@ listed_exactly_once */
GRP_DECL_CONTRACT(option, options_);
GRP_DECL_CONTRACT(multi_option, multi_options_);
GRP_DECL_CONTRACT(toggle, toggles_);

/* ======================= usage text (C15) ======================= */
/* std::ostream seen through what line breaking needs: the formatting width, the column, the absolute position, and a monitor of C15:
 * how many words were written, the identity of word number g_w, and whether some line grew beyond max_width although no word on it was
 * longer than a whole line (limit) - "no line exceeds the width unless a single unbreakable word forces it" */
struct ostream_m { long tellp; long col; int width; size_t words; size_t w_id; long max_width; long limit; nbool forced; nbool bad; };
#define OS_WORDMAX (1 << 20)
static inline long os_tellp(const struct ostream_m *s) { return s->tellp; }
static inline void os_setw(struct ostream_m *s, int w) { s->width = w; }
static inline void os_put_char(struct ostream_m *s) { long n = s->width > 1 ? s->width : 1; s->width = 0; s->col += n; s->tellp += n; }                       /* s << ' ' */
static inline void os_endl(struct ostream_m *s) { s->col = 0; s->tellp += 1; s->forced = 0; }                                                                  /* s << std::endl */
static inline void os_put_word(struct ostream_m *s, const struct ostr *w)                                                                                      /* s << word */
{
    long n = (long)w->len > (long)s->width ? (long)w->len : (long)s->width; s->width = 0;
    if ((long)w->len + 1 > s->limit) s->forced = 1;
    s->col += n; s->tellp += n;
    if (s->col > s->max_width && !s->forced) s->bad = 1;
    if (s->words == g_w) s->w_id = w->id;
    s->words = s->words + 1;
}
extern size_t g_words_n, g_words_w_id;                          /* what the last split() returned (recorded by the stub) */
struct owords { size_t n; size_t w_id; };                       /* the vector split() returned: its length and the identity of word number g_w */
void lang_split_blank(struct owords *out, const struct ostr *in)
__CPROVER_requires(nitro_exc == 0 && __CPROVER_rw_ok(out, sizeof(*out)) && __CPROVER_r_ok(in, sizeof(*in)))
__CPROVER_assigns(*out, g_words_n, g_words_w_id)
__CPROVER_ensures(nitro_exc == 0 && out->n >= 1 && out->n <= 1024 && g_words_n == out->n && g_words_w_id == out->w_id);                                /* C17: at least one piece; the bound keeps `space` inside int (assumption A-text: < 2^30 characters) */
struct ostr owords_at(const struct owords *v, size_t i)
__CPROVER_requires(nitro_exc == 0 && __CPROVER_r_ok(v, sizeof(*v)) && i < v->n)
__CPROVER_assigns()
__CPROVER_ensures(nitro_exc == 0 && __CPROVER_return_value.len < OS_WORDMAX && (i == g_w ==> __CPROVER_return_value.id == v->w_id));
static inline void oword_tabs_to_blanks(struct ostr *w) { }    /* replace_all(word, "\t", " "): same length, same word up to the kind of blank (C17) */
#define FP_INV (!s->bad && s->max_width == (long)max_width && s->limit == (long)max_width - (long)left_pad && s->width >= 0 && s->width <= 4096 && \
    (s->forced || space <= 0 || s->col + (s->width > 1 ? (long)s->width - 1 : 0) <= (long)max_width - (long)space))
#define NITRO_LOOP_format_padded_1 \
  __CPROVER_assigns(i_, space, s->tellp, s->col, s->width, s->words, s->w_id, s->forced, s->bad) \
  __CPROVER_loop_invariant(nitro_words.n <= 1024 && i_ <= nitro_words.n && s->words == i_ && (g_w < i_ ==> s->w_id == nitro_words.w_id) && \
      s->col >= 0 && s->col <= 4096 + (long)(i_ + 1) * (OS_WORDMAX + 4096) && s->tellp >= -1 && s->tellp <= 4096 + (long)(i_ + 1) * (OS_WORDMAX + 4097) && \
      (long)space <= (long)max_width && (long)space >= -(long)i_ * OS_WORDMAX - OS_WORDMAX && FP_INV) \
  __CPROVER_decreases(nitro_words.n - i_)
struct ostream_m *format_padded(struct ostream_m *s, const struct ostr *in, int left_pad, int max_width)
__CPROVER_requires(nitro_exc == 0 && O_OBJ_OR_OK(format_padded, s) && O_OBJ_OR_ROK(format_padded, in) && 0 <= left_pad && left_pad <= max_width && max_width <= 4096)
__CPROVER_requires(s->tellp == s->col && s->col >= 0 && s->col <= 4096 && s->width == 0 && s->words == 0 && !s->bad && !s->forced &&       /* a local stream that holds no line break yet: position == column */
                   s->max_width == (long)max_width && s->limit == (long)max_width - (long)left_pad)
__CPROVER_assigns(*s, nitro_exc, g_words_n, g_words_w_id)
__CPROVER_ensures(nitro_exc == 0 && __CPROVER_return_value == s)
__CPROVER_ensures(!s->bad)                                                                           /*@ no_line_exceeds_the_width_unless_a_single_unbreakable_word_forces_it */
__CPROVER_ensures(s->words == g_words_n && (g_w < g_words_n ==> s->w_id == g_words_w_id))   /*@ every_word_is_written_exactly_once_in_order */
__CPROVER_ensures(s->width == 0);                                                                    /*@ leaves_no_pending_width_behind */

/* ---- group::usage: every entry of order_ is formatted exactly once, in order ---- */
struct ousage_stream { size_t fmt_calls; const struct obase *fmt_w; size_t header_pieces; };    /* the target stream seen through what was written: calls of format(), the option formatted by call number g_w */
const struct obase *oorder_at(const struct oorder *o, size_t i)
__CPROVER_requires(nitro_exc == 0 && __CPROVER_r_ok(o, sizeof(*o)) && i < o->count)
__CPROVER_assigns()
__CPROVER_ensures(nitro_exc == 0 && (i == g_w ==> __CPROVER_return_value == o->w_elem));
void base_format(const struct obase *self, struct ousage_stream *o)           /* virtual base::format(std::ostream&): one block of text per call */
__CPROVER_requires(nitro_exc == 0 && __CPROVER_rw_ok(o, sizeof(*o)))
__CPROVER_assigns(o->fmt_calls, o->fmt_w)
__CPROVER_ensures(nitro_exc == 0 && (__CPROVER_old(o->fmt_calls) != ~(size_t)0 ==> o->fmt_calls == __CPROVER_old(o->fmt_calls) + 1) && (__CPROVER_old(o->fmt_calls) == g_w ==> o->fmt_w == self) && (__CPROVER_old(o->fmt_calls) != g_w ==> o->fmt_w == __CPROVER_old(o->fmt_w)));
static inline void ous_header(struct ousage_stream *o) { if (o->header_pieces != ~(size_t)0) o->header_pieces = o->header_pieces + 1; }
#define GROUP_EMPTY(g) (!(g)->options_.nonempty && !(g)->multi_options_.nonempty && !(g)->toggles_.nonempty)
nbool group_empty(const struct ogroup *self)
__CPROVER_requires(nitro_exc == 0 && O_OBJ_OR_ROK(group_empty, self))
__CPROVER_assigns()
__CPROVER_ensures(nitro_exc == 0 && (__CPROVER_return_value != 0) == GROUP_EMPTY(self));
#define NITRO_LOOP_group_usage_1 \
  __CPROVER_assigns(i_, s->fmt_calls, s->fmt_w) \
  __CPROVER_loop_invariant(i_ <= self->order_.count && s->fmt_calls == i_ && (g_w < i_ ==> s->fmt_w == self->order_.w_elem)) \
  __CPROVER_decreases(self->order_.count - i_)
void group_usage(const struct ogroup *self, struct ousage_stream *s)
__CPROVER_requires(nitro_exc == 0 && O_OBJ_OR_ROK(group_usage, self) && O_OBJ_OR_OK(group_usage, s) && s->fmt_calls == 0 && self->order_.count < ~(size_t)0)
__CPROVER_assigns(*s)
__CPROVER_ensures(nitro_exc == 0)
__CPROVER_ensures(GROUP_EMPTY(self) ==> (s->fmt_calls == 0 && s->header_pieces == __CPROVER_old(s->header_pieces)))             /*@ an_empty_group_prints_nothing */
__CPROVER_ensures(!GROUP_EMPTY(self) ==> s->fmt_calls == self->order_.count)                                                    /*@ every_listed_option_is_formatted_exactly_once */
__CPROVER_ensures((!GROUP_EMPTY(self) && g_w < self->order_.count) ==> s->fmt_w == self->order_.w_elem);                         /*@ in_declaration_order */

/* ---- arguments: positionals by index ---- */
/* the implicit int -> std::size_t conversion of the argument of at(): modular, well defined ([conv.integral]) - spelled without a cast so that
 * the conversion check of the verifier is not raised on defined behaviour */
static inline size_t nitro_int_to_size(int i) { return i >= 0 ? (size_t)i : ~(size_t)0 - (size_t)(-((long)i + 1)); }
/* std::vector::at(k): the position itself, std::out_of_range when k >= size() */
size_t ovec_at(const struct ovec *v, size_t k)
__CPROVER_requires(nitro_exc == 0 && __CPROVER_r_ok(v, sizeof(*v)))
__CPROVER_assigns(nitro_exc)
__CPROVER_ensures((nitro_exc != 0) == (k >= v->count) && (nitro_exc == 0 || nitro_exc == EXC_STD))
__CPROVER_ensures(nitro_exc == 0 ==> __CPROVER_return_value == k);
#define ARGS_N (self->positionals_.count)
size_t args_get_int(const struct oarguments *self, int i)
__CPROVER_requires(nitro_exc == 0 && O_OBJ_OR_ROK(args_get_int, self) && ARGS_N <= 0x7fffffff)       /* "if you ever manage to have more than 2^31 positionals, I owe you a beer" */
__CPROVER_assigns(nitro_exc)
__CPROVER_ensures((i >= 0 && (size_t)i < ARGS_N) ==> (nitro_exc == 0 && __CPROVER_return_value == (size_t)i))                       /*@ index_k_is_the_kth_positional */
__CPROVER_ensures((i < 0 && (size_t)(-(long)i) <= ARGS_N) ==> (nitro_exc == 0 && __CPROVER_return_value == ARGS_N - (size_t)(-(long)i)))   /*@ index_minus_k_is_the_kth_positional_from_the_end */
__CPROVER_ensures(((i >= 0 && (size_t)i >= ARGS_N) || (i < 0 && (size_t)(-(long)i) > ARGS_N)) ==> nitro_exc == EXC_STD);                /*@ anything_else_is_out_of_range_never_another_element */
size_t args_index(const struct oarguments *self, int i)
__CPROVER_requires(nitro_exc == 0 && O_OBJ_OR_ROK(args_index, self) && ARGS_N <= 0x7fffffff)
__CPROVER_assigns(nitro_exc)
__CPROVER_ensures((i >= 0 && (size_t)i < ARGS_N) ==> (nitro_exc == 0 && __CPROVER_return_value == (size_t)i))
__CPROVER_ensures((i < 0 && (size_t)(-(long)i) <= ARGS_N) ==> (nitro_exc == 0 && __CPROVER_return_value == ARGS_N - (size_t)(-(long)i)))   /*@ index_minus_k_is_the_kth_positional_from_the_end */
__CPROVER_ensures(((i >= 0 && (size_t)i >= ARGS_N) || (i < 0 && (size_t)(-(long)i) > ARGS_N)) ==> nitro_exc == EXC_STD);
#pragma CPROVER check pop
#endif
