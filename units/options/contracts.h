/* Contracts for the option parser (C01-C04, C11-C15). */
#ifndef OPTIONS_CONTRACTS_H
#define OPTIONS_CONTRACTS_H
#include "nitro_rt.h"
#include "nitro_opt.h"
#include "kf_gen.h"
#include "enf_gen.h"
/* Specification expressions in this file dereference only pointers that the preconditions made valid (is_fresh / r_ok);
 * pointer checks are switched off for the SPEC TEXT (never for the extracted code) because they dominated symbolic execution. */
#pragma CPROVER check push
#pragma CPROVER check disable "pointer"
#pragma CPROVER check disable "pointer-overflow"
#pragma CPROVER check disable "bounds"
#define NITRO_UNIT_GLOBALS NITRO_OPT_GLOBALS
#define NITRO_HAVOC_UNIT NITRO_OPT_HAVOC
#define O_OBJ(p) __CPROVER_is_fresh(p, sizeof(*(p)))
#define O_OBJ_OR_ROK(fn, p) ((NITRO_ENF_##fn && O_OBJ(p)) || (!NITRO_ENF_##fn && __CPROVER_r_ok(p, sizeof(*(p)))))
#define O_OBJ_OR_OK(fn, p) ((NITRO_ENF_##fn && O_OBJ(p)) || (!NITRO_ENF_##fn && __CPROVER_rw_ok(p, sizeof(*(p)))))
static inline struct ostr nitro_empty_ostr(void)
{
    struct ostr s; s.id = OSTR_ID_EMPTY; s.len = 0; s.b0 = 0; s.b1 = 0; s.b2 = 0; s.eq = NITRO_NPOS; s.nl_after_eq = 0;
    s.name_id = OSTR_ID_EMPTY; s.name_sub2_id = 0; s.name_sub5_id = 0; s.value_id = 0; s.name_has_no = 0; s.lcount[0] = 0; s.lcount[1] = 0; s.lcount[2] = 0; s.lcount[3] = 0; s.lother = 0; return s;
}

/* ======================= layer 1: user_input, one command line token ======================= */
struct user_input { struct ostr arg_; struct ostr name_; nbool value_has; struct ostr value_; };
/* the token grammar, as predicates over the TEXT of the token (a = pointer to its ostr) */
#define T_NAMELEN(a) OSTR_NAMELEN(a)
#define T_VALUE(a) (T_NAMELEN(a) == 0 || (a)->b0 != '-')                                  /* does not start with a dash: a value / positional */
#define T_DD(a) ((a)->id == OSTR_ID_DD)                                                   /* exactly "--" */
#define T_SHORT(a) (T_NAMELEN(a) > 1 && (a)->b0 == '-' && (a)->b1 != '-')                 /* -x, -xyz, -x=v */
#define T_NAMED(a) (T_NAMELEN(a) > 2 && (a)->b0 == '-' && (a)->b1 == '-' && (a)->b2 != '-')   /* --name, --name=v */
#define T_HAS_VALUE(a) (T_VALUE(a) || (a)->eq != NITRO_NPOS)
#define T_MALFORMED(a) (!T_VALUE(a) && !T_DD(a) && !OSTR_TOKEN_SHAPE(a))                  /* -, ---x, -=x, --=x, ... */
/* representation invariant of a constructed user_input: name_ / value_ are the parts of arg_ (evaluated on a copy) */
static inline nbool ui_wf_v(struct user_input u)
{
    return ostr_wf_v(u.arg_) && u.name_.id == u.arg_.name_id && u.name_.len == OSTR_NAMELEN_V(u.arg_) && u.name_.eq == NITRO_NPOS &&
        u.name_.b0 == u.arg_.b0 && u.name_.b1 == u.arg_.b1 && u.name_.b2 == u.arg_.b2 && u.name_.name_sub2_id == u.arg_.name_sub2_id &&
        u.name_.name_sub5_id == u.arg_.name_sub5_id && u.name_.name_has_no == u.arg_.name_has_no && OSTR_SAME_LETTERS(u.name_, u.arg_) &&
        u.value_has == (u.arg_.eq != NITRO_NPOS) && (!u.value_has || (u.value_.id == u.arg_.value_id && u.value_.len == u.arg_.len - u.arg_.eq - 1));
}
#define UI_WF(u) ui_wf_v(*(u))
#define UI_PRE(fn, u) (nitro_exc == 0 && O_OBJ_OR_ROK(fn, u) && UI_WF(u))

void ui_ctor(struct user_input *self, const struct ostr *arg)
__CPROVER_requires(nitro_exc == 0 && O_OBJ_OR_OK(ui_ctor, self) && O_OBJ_OR_ROK(ui_ctor, arg) && OSTR_WF(arg))
__CPROVER_assigns(*self, nitro_exc)
__CPROVER_ensures(T_MALFORMED(arg) == (nitro_exc != 0))                                          /*@ raises_iff_malformed_dash_token */
__CPROVER_ensures(nitro_exc == 0 || nitro_exc == EXC_PARSING_ERROR)                               /*@ only_the_user_input_error */
__CPROVER_ensures(nitro_exc == 0 ==> (self->arg_.id == arg->id && self->arg_.len == arg->len && self->arg_.eq == arg->eq && self->arg_.b0 == arg->b0 && self->arg_.b1 == arg->b1 && self->arg_.b2 == arg->b2 && \
                  self->arg_.name_id == arg->name_id && self->arg_.value_id == arg->value_id && self->arg_.name_sub2_id == arg->name_sub2_id && self->arg_.name_sub5_id == arg->name_sub5_id && \
                  self->arg_.name_has_no == arg->name_has_no && OSTR_SAME_LETTERS(self->arg_, *arg) && self->arg_.nl_after_eq == arg->nl_after_eq))   /*@ keeps_the_token_text */
__CPROVER_ensures(nitro_exc == 0 ==> UI_WF(self));                                                /*@ split_at_the_first_equals_sign */

#define UI_OBSERVER(name, SPEC) \
nbool ui_##name(const struct user_input *self) \
__CPROVER_requires(UI_PRE(ui_##name, self)) \
__CPROVER_assigns() \
__CPROVER_ensures(__CPROVER_return_value == (SPEC) && nitro_exc == 0)
UI_OBSERVER(is_value, T_VALUE(&self->arg_));                 /*@ value_iff_no_leading_dash */
UI_OBSERVER(is_double_dash, T_DD(&self->arg_));
UI_OBSERVER(is_short, T_SHORT(&self->arg_));
UI_OBSERVER(is_named, T_NAMED(&self->arg_));
UI_OBSERVER(is_argument, T_SHORT(&self->arg_) || T_NAMED(&self->arg_));
UI_OBSERVER(has_value, T_HAS_VALUE(&self->arg_));
UI_OBSERVER(has_prefix, self->arg_.name_has_no);

const struct ostr *ui_data(const struct user_input *self)
__CPROVER_requires(UI_PRE(ui_data, self))
__CPROVER_assigns()
__CPROVER_ensures(__CPROVER_pointer_equals(__CPROVER_return_value, &self->arg_) && nitro_exc == 0);   /*@ the_token_verbatim */

/* developer-error guards are PRECONDITIONS (C04): every call site is proved to satisfy them */
const struct ostr *ui_name(const struct user_input *self)
__CPROVER_requires(UI_PRE(ui_name, self))
__CPROVER_requires(!T_VALUE(&self->arg_))                                                         /*@ never_asked_for_the_name_of_a_pure_value */
__CPROVER_assigns(nitro_exc)
__CPROVER_ensures(nitro_exc == 0 && __CPROVER_pointer_equals(__CPROVER_return_value, &self->name_));

struct ostr ui_name_without_prefix(const struct user_input *self)
__CPROVER_requires(UI_PRE(ui_name_without_prefix, self))
__CPROVER_requires(self->arg_.name_has_no)                                                        /*@ only_called_for_--no-_tokens */
__CPROVER_assigns(nitro_exc)
__CPROVER_ensures(nitro_exc == 0 && __CPROVER_return_value.id == self->arg_.name_sub5_id);         /*@ the_name_behind_--no- */

const struct ostr *ui_value(const struct user_input *self)
__CPROVER_requires(UI_PRE(ui_value, self))
__CPROVER_requires(T_HAS_VALUE(&self->arg_))                                                      /*@ only_called_when_a_value_is_there */
__CPROVER_assigns(nitro_exc)
__CPROVER_ensures(nitro_exc == 0)
__CPROVER_ensures(__CPROVER_pointer_equals(__CPROVER_return_value, T_VALUE(&self->arg_) ? &self->arg_ : &self->value_));   /*@ a_value_token_is_its_own_value_else_the_text_after_the_first_equals_sign */

void ui_as_short_list(struct omset *result, const struct user_input *self)
__CPROVER_requires(UI_PRE(ui_as_short_list, self) && O_OBJ_OR_OK(ui_as_short_list, result))
__CPROVER_requires(T_SHORT(&self->arg_))                                                          /*@ only_called_for_short_tokens */
__CPROVER_requires(LETTERS_WF && (!NITRO_ENF_ui_as_short_list || (g_at_next == 1 && g_at_hits[0] == 0 && g_at_hits[1] == 0 && g_at_hits[2] == 0 && g_at_hits[3] == 0 && g_at_other == 0)))
__CPROVER_assigns(*result, nitro_exc, g_at_next, g_at_hits, g_at_other)
__CPROVER_ensures(nitro_exc == 0 && result->total == T_NAMELEN(&self->arg_) - 1)                    /*@ one_entry_per_letter_behind_the_dash */
__CPROVER_ensures(result->cnt[0] == self->arg_.lcount[0] && result->cnt[1] == self->arg_.lcount[1] && result->cnt[2] == self->arg_.lcount[2] && result->cnt[3] == self->arg_.lcount[3] && result->other == self->arg_.lother);   /*@ each_letter_as_often_as_it_occurs */
#define NITRO_LOOP_ui_as_short_list_1 \
  __CPROVER_assigns(i, *result, g_at_next, g_at_hits, g_at_other) \
  __CPROVER_loop_invariant(1 <= i && i <= self->name_.len && g_at_next == i && result->total == i - 1) \
  __CPROVER_loop_invariant(result->cnt[0] == g_at_hits[0] && result->cnt[1] == g_at_hits[1] && result->cnt[2] == g_at_hits[2] && result->cnt[3] == g_at_hits[3] && result->other == g_at_other) \
  __CPROVER_loop_invariant(g_at_hits[0] <= i && g_at_hits[1] <= i && g_at_hits[2] <= i && g_at_hits[3] <= i && g_at_other <= i && g_at_hits[0] + g_at_hits[1] + g_at_hits[2] + g_at_hits[3] + g_at_other == i - 1) \
  __CPROVER_loop_invariant((i == self->name_.len && i > 1) ==> (g_at_hits[0] == self->arg_.lcount[0] && g_at_hits[1] == self->arg_.lcount[1] && g_at_hits[2] == self->arg_.lcount[2] && g_at_hits[3] == self->arg_.lcount[3] && g_at_other == self->arg_.lother)) \
  __CPROVER_decreases(self->name_.len - i)

struct ostr ui_as_named(const struct user_input *self)
__CPROVER_requires(UI_PRE(ui_as_named, self))
__CPROVER_requires(T_NAMED(&self->arg_))                                                          /*@ only_called_for_long_tokens */
__CPROVER_assigns(nitro_exc)
__CPROVER_ensures(nitro_exc == 0 && __CPROVER_return_value.id == self->arg_.name_sub2_id);         /*@ the_name_behind_the_two_dashes */

/* ======================= layer 2: declared options ======================= */
struct obase { struct ostr name_; struct ostr short_; struct ostr env_; nbool dirty_; };
struct ooption { struct obase b; nbool value_has; struct ostr value_; nbool default_has; struct ostr default_; nbool is_optional_; };
/* std::vector<std::string>: number of elements and the identity of element number g_w */
struct ovec { size_t count; size_t w_id; };
struct omulti { struct obase b; struct ovec value_; nbool default_has; struct ovec default_; nbool is_optional_; };
struct otoggle { struct obase b; int given_; int default_; nbool reversable_; };
static inline nbool ostr_eq_v(struct ostr a, struct ostr b) { return a.id == b.id; }     /* operator== on interned strings */
static inline void ovec_clear(struct ovec *v) { v->count = 0; v->w_id = 0; }
void ovec_push_back(struct ovec *v, const struct ostr *s)
__CPROVER_requires(__CPROVER_rw_ok(v, sizeof(*v)) && __CPROVER_r_ok(s, sizeof(*s)))
__CPROVER_assigns(*v)
__CPROVER_ensures(v->count == __CPROVER_old(v->count) + 1 && (__CPROVER_old(v->count) == g_w ==> v->w_id == s->id) && (__CPROVER_old(v->count) != g_w ==> v->w_id == __CPROVER_old(v->w_id)));
/* the process environment as seen by one check(): what nitro::env::get(name) returned last ("" when unset) */
extern struct ostr g_env_value; extern size_t g_env_name;
struct ostr nitro_env_get(const struct ostr *name)
__CPROVER_requires(__CPROVER_r_ok(name, sizeof(*name)))
__CPROVER_assigns(g_env_name)
__CPROVER_ensures(g_env_name == name->id && __CPROVER_return_value.id == g_env_value.id && __CPROVER_return_value.len == g_env_value.len);
/* std::getline(stream, element, ';') over the environment text: piece number i has identity PIECE(i); pieces_total pieces */
struct ogetline { size_t next; };
extern size_t g_pieces_total, g_piece_w_id;          /* number of ';'-separated pieces; identity of piece number g_w */
static inline void ogetline_init(struct ogetline *g, const struct ostr *text) { (void)text; g->next = 0; }
nbool ogetline_next(struct ogetline *g, struct ostr *element)
__CPROVER_requires(__CPROVER_rw_ok(g, sizeof(*g)) && __CPROVER_w_ok(element, sizeof(*element)) && g->next <= g_pieces_total)
__CPROVER_assigns(*g, *element)
__CPROVER_ensures(__CPROVER_return_value == (__CPROVER_old(g->next) < g_pieces_total))
__CPROVER_ensures(__CPROVER_return_value ==> (g->next == __CPROVER_old(g->next) + 1 && (__CPROVER_old(g->next) == g_w ==> element->id == g_piece_w_id)))
__CPROVER_ensures(!__CPROVER_return_value ==> g->next == __CPROVER_old(g->next));
#undef NITRO_UNIT_GLOBALS
#undef NITRO_HAVOC_UNIT
#define NITRO_UNIT_GLOBALS NITRO_OPT_GLOBALS size_t g_oi; struct ostr g_env_value; size_t g_env_name, g_pieces_total, g_piece_w_id;
#define NITRO_HAVOC_UNIT NITRO_OPT_HAVOC g_oi = nondet_size_t(); g_env_value.id = nondet_size_t(); g_env_value.len = nondet_size_t(); g_env_name = nondet_size_t(); g_pieces_total = nondet_size_t(); g_piece_w_id = nondet_size_t();

#define BASE_WF_V(b) (LETTERS_WF && (b).short_.len <= 1 && ((b).short_.len == 1 ==> LETTER_SLOT((b).short_.b0) < NITRO_NL))   /* short name: one character, and one of the table letters */
/* how often the letter of option b occurs in token a */
#define LCOUNT(b, a) ((b)->short_.b0 == g_letters[0] ? (a)->lcount[0] : (b)->short_.b0 == g_letters[1] ? (a)->lcount[1] : (b)->short_.b0 == g_letters[2] ? (a)->lcount[2] : (a)->lcount[3])
#define VALUE_ID_OF(a) (T_VALUE(a) ? (a)->id : (a)->value_id)                                      /* the value a token carries: itself, or the text after the first '=' */

#define BASE_OBS(name, RT, SPEC) \
RT base_##name(const struct obase *self) \
__CPROVER_requires(nitro_exc == 0 && O_OBJ_OR_ROK(base_##name, self)) \
__CPROVER_assigns() \
__CPROVER_ensures(nitro_exc == 0 && SPEC)
BASE_OBS(has_short_name, nbool, __CPROVER_return_value == (self->short_.len != 0));
BASE_OBS(has_env, nbool, __CPROVER_return_value == (self->env_.len != 0));
BASE_OBS(has_non_default, nbool, __CPROVER_return_value == self->dirty_);
BASE_OBS(short_name, const struct ostr *, __CPROVER_pointer_equals(__CPROVER_return_value, &self->short_));
BASE_OBS(name, const struct ostr *, __CPROVER_pointer_equals(__CPROVER_return_value, &self->name_));
BASE_OBS(env, const struct ostr *, __CPROVER_pointer_equals(__CPROVER_return_value, &self->env_));

/* which tokens denote an option (C01/C02): its letter in a short token (a bundle with '=value' never matches), or its long name */
#define M_LETTER(b, a) ((b)->short_.len != 0 && T_SHORT(a) && !(T_NAMELEN(a) > 2 && T_HAS_VALUE(a)) && LCOUNT(b, a) > 0)
#define M_LONG(b, a) (!((b)->short_.len != 0 && T_SHORT(a)) && T_NAMED(a) && (a)->name_sub2_id == (b)->name_.id)
#define M_BASE(b, a) (M_LETTER(b, a) || M_LONG(b, a))
nbool base_matches(const struct obase *self, const struct user_input *arg)
__CPROVER_requires(nitro_exc == 0 && O_OBJ_OR_ROK(base_matches, self) && O_OBJ_OR_ROK(base_matches, arg) && UI_WF(arg) && BASE_WF_V(*self))
__CPROVER_assigns(nitro_exc, g_at_next, g_at_hits, g_at_other)
__CPROVER_ensures(nitro_exc == 0)                                                                 /*@ matching_never_raises */
__CPROVER_ensures(__CPROVER_return_value == M_BASE(self, &arg->arg_));                            /*@ matches_iff_letter_or_long_name */

/* ---- toggle ---- */
#define M_NO(t, a) ((a)->name_has_no && (a)->name_sub5_id == (t)->b.name_.id)                       /* --no-<name> */
#define M_TOGGLE(t, a) (M_NO(t, a) || M_BASE(&(t)->b, a))
int toggle_given(const struct otoggle *self)
__CPROVER_requires(nitro_exc == 0 && O_OBJ_OR_ROK(toggle_given, self))
__CPROVER_assigns()
__CPROVER_ensures(__CPROVER_return_value == self->given_ && nitro_exc == 0);
nbool toggle_is_reversible(const struct otoggle *self)
__CPROVER_requires(nitro_exc == 0 && O_OBJ(self))
__CPROVER_assigns()
__CPROVER_ensures(__CPROVER_return_value == self->reversable_);
struct otoggle *toggle_allow_reverse(struct otoggle *self)
__CPROVER_requires(nitro_exc == 0 && O_OBJ(self))
__CPROVER_assigns(self->reversable_)
__CPROVER_ensures(self->reversable_ && __CPROVER_return_value == self);
struct otoggle *toggle_default_value_bool(struct otoggle *self, nbool def)
__CPROVER_requires(nitro_exc == 0 && O_OBJ(self))
__CPROVER_assigns(self->default_)
__CPROVER_ensures(self->default_ == (def ? 1 : 0) && __CPROVER_return_value == self);
struct otoggle *toggle_default_value_int(struct otoggle *self, int def)
__CPROVER_requires(nitro_exc == 0 && O_OBJ(self))
__CPROVER_assigns(self->default_)
__CPROVER_ensures(self->default_ == def && __CPROVER_return_value == self);

/* C11: the documented vocabulary, by identity (16..30 truthy, 32..46 falsy, see unit.py) */
#define WORD_TRUTHY(s) ((s)->id >= 16 && (s)->id <= 30)
#define WORD_FALSY(s) ((s)->id >= 32 && (s)->id <= 46)
nbool toggle_parse_env_value(const struct ostr *env_value_p)
__CPROVER_requires(nitro_exc == 0 && O_OBJ_OR_ROK(toggle_parse_env_value, env_value_p))
__CPROVER_assigns(nitro_exc)
__CPROVER_ensures((!WORD_TRUTHY(env_value_p) && !WORD_FALSY(env_value_p)) == (nitro_exc != 0))       /*@ every_word_outside_the_vocabulary_is_rejected */
__CPROVER_ensures(nitro_exc == 0 || nitro_exc == EXC_PARSING_ERROR)                                 /*@ as_a_user_input_error */
__CPROVER_ensures(nitro_exc == 0 ==> __CPROVER_return_value == WORD_TRUTHY(env_value_p));            /*@ truthy_words_give_true_falsy_words_false */

static inline size_t toggle_short_count(const struct user_input *arg, const struct ostr *key)      /* arg.as_short_list().count(short_name()) */
{ struct omset l; ui_as_short_list(&l, arg); return omset_count(&l, key); }

/* KNOWN FINDING toggle_named_no: a toggle whose own name starts with "no-" — its long spelling --no-xyz is read as the reversal of "xyz" */
#define TOGGLE_R_OWN_NO(t, a) ((a)->name_has_no && T_NAMED(a) && (a)->name_sub2_id == (t)->b.name_.id)
#if NITRO_KF_REGION && defined(NITRO_KF_SEL_toggle_named_no)
#define TOGGLE_KF_PRE(t, a) TOGGLE_R_OWN_NO(t, a)
#else
#define TOGGLE_KF_PRE(t, a) (!KF_toggle_named_no || !TOGGLE_R_OWN_NO(t, a))
#endif
#define TOGGLE_UNCHANGED(t) ((t)->given_ == __CPROVER_old((t)->given_) && (t)->b.dirty_ == __CPROVER_old((t)->b.dirty_))
/* positive occurrences a token contributes: one for the long spelling, one per occurrence of the letter in a short token */
#define TOGGLE_POSITIVE(t, a) (M_LONG(&(t)->b, a) || (M_LETTER(&(t)->b, a)))
void toggle_update_value(struct otoggle *self, const struct user_input *arg)
__CPROVER_requires(nitro_exc == 0 && O_OBJ_OR_OK(toggle_update_value, self) && O_OBJ_OR_ROK(toggle_update_value, arg) && UI_WF(arg) && BASE_WF_V(self->b))
__CPROVER_requires(M_TOGGLE(self, &arg->arg_) && self->given_ >= 0 && self->given_ < (1 << 30) && arg->arg_.len < (1 << 20))
__CPROVER_requires(TOGGLE_KF_PRE(self, &arg->arg_))
__CPROVER_assigns(self->given_, self->b.dirty_, nitro_exc, g_at_next, g_at_hits, g_at_other)
__CPROVER_ensures(nitro_exc == 0 || nitro_exc == EXC_PARSING_ERROR)
__CPROVER_ensures(T_HAS_VALUE(&arg->arg_) ==> nitro_exc != 0)                                       /*@ value_on_a_toggle_is_rejected */
__CPROVER_ensures((!T_HAS_VALUE(&arg->arg_) && !TOGGLE_POSITIVE(self, &arg->arg_) && !self->reversable_) ==> nitro_exc != 0)   /*@ no-_form_only_for_reversible_toggles */
__CPROVER_ensures((!T_HAS_VALUE(&arg->arg_) && !TOGGLE_POSITIVE(self, &arg->arg_) && __CPROVER_old(self->b.dirty_) && __CPROVER_old(self->given_) > 0) ==> nitro_exc != 0)   /*@ reversal_after_a_positive_spelling_is_rejected */
__CPROVER_ensures((!T_HAS_VALUE(&arg->arg_) && TOGGLE_POSITIVE(self, &arg->arg_) && __CPROVER_old(self->b.dirty_) && __CPROVER_old(self->given_) == 0) ==> nitro_exc != 0)   /*@ positive_spelling_after_a_reversal_is_rejected */
__CPROVER_ensures(nitro_exc != 0 ==> TOGGLE_UNCHANGED(self))                                         /*@ rejected_token_changes_nothing */
__CPROVER_ensures(nitro_exc != 0 ==> (T_HAS_VALUE(&arg->arg_) || (!TOGGLE_POSITIVE(self, &arg->arg_) && (!self->reversable_ || (__CPROVER_old(self->b.dirty_) && __CPROVER_old(self->given_) > 0))) ||
      (TOGGLE_POSITIVE(self, &arg->arg_) && __CPROVER_old(self->b.dirty_) && __CPROVER_old(self->given_) == 0)))   /*@ rejected_only_for_a_documented_reason */
__CPROVER_ensures((nitro_exc == 0 && !TOGGLE_POSITIVE(self, &arg->arg_)) ==> (self->given_ == 0 && self->b.dirty_ && self->reversable_ && !T_HAS_VALUE(&arg->arg_)))   /*@ no-_form_yields_0 */
__CPROVER_ensures((nitro_exc == 0 && TOGGLE_POSITIVE(self, &arg->arg_)) ==> (self->b.dirty_ && !T_HAS_VALUE(&arg->arg_) &&
      self->given_ == __CPROVER_old(self->given_) + (T_SHORT(&arg->arg_) ? (int)LCOUNT(&self->b, &arg->arg_) : 1)));   /*@ each_long_spelling_and_each_letter_occurrence_adds_one */

void toggle_prepare(struct otoggle *self)
__CPROVER_requires(nitro_exc == 0 && O_OBJ_OR_OK(toggle_prepare, self))
__CPROVER_assigns(self->given_, self->b.dirty_)
__CPROVER_ensures(nitro_exc == 0 && self->given_ == 0 && !self->b.dirty_);                          /*@ nothing_left_of_an_earlier_parse */

/* C03/C11: command line, then environment word, then default */
void toggle_check(struct otoggle *self)
__CPROVER_requires(nitro_exc == 0 && O_OBJ_OR_OK(toggle_check, self))
__CPROVER_assigns(self->given_, self->b.dirty_, nitro_exc, g_env_name)
__CPROVER_ensures(nitro_exc == 0 || nitro_exc == EXC_PARSING_ERROR)
__CPROVER_ensures(__CPROVER_old(self->b.dirty_) ==> (nitro_exc == 0 && TOGGLE_UNCHANGED(self)))        /*@ command_line_wins */
__CPROVER_ensures(nitro_exc != 0 ==> TOGGLE_UNCHANGED(self))                                          /*@ a_failed_check_leaves_no_trace */
#define TC_ENV (!__CPROVER_old(self->b.dirty_) && self->b.env_.len != 0 && g_env_value.len != 0)
__CPROVER_ensures(TC_ENV ==> ((nitro_exc != 0) == (!WORD_TRUTHY(&g_env_value) && !WORD_FALSY(&g_env_value))))   /*@ unparsable_environment_word_is_rejected */
__CPROVER_ensures((TC_ENV && nitro_exc == 0) ==> (self->given_ == (WORD_TRUTHY(&g_env_value) ? 1 : 0) && self->b.dirty_ && g_env_name == self->b.env_.id))   /*@ environment_word_gives_1_or_0_and_counts_as_provided */
__CPROVER_ensures((!__CPROVER_old(self->b.dirty_) && !TC_ENV) ==> (nitro_exc == 0 && self->given_ == self->default_ && !self->b.dirty_));   /*@ else_the_declared_default_not_provided */
nbool toggle_matches(const struct otoggle *self, const struct user_input *arg)
__CPROVER_requires(nitro_exc == 0 && O_OBJ_OR_ROK(toggle_matches, self) && O_OBJ_OR_ROK(toggle_matches, arg) && UI_WF(arg) && BASE_WF_V(self->b))
__CPROVER_assigns(nitro_exc, g_at_next, g_at_hits, g_at_other)
__CPROVER_ensures(nitro_exc == 0 && __CPROVER_return_value == M_TOGGLE(self, &arg->arg_));           /*@ matches_iff_long_name_no-_form_or_letter */

/* ---- option ---- */
void option_update_value(struct ooption *self, const struct user_input *arg)
__CPROVER_requires(nitro_exc == 0 && O_OBJ_OR_OK(option_update_value, self) && O_OBJ_OR_ROK(option_update_value, arg) && UI_WF(arg) && T_HAS_VALUE(&arg->arg_))
__CPROVER_assigns(self->value_has, self->value_, self->b.dirty_, nitro_exc)
__CPROVER_ensures((__CPROVER_old(self->value_has) != 0) == (nitro_exc != 0))                                /*@ single_valued_option_given_twice_is_rejected */
__CPROVER_ensures(nitro_exc == 0 || nitro_exc == EXC_PARSING_ERROR)
__CPROVER_ensures(nitro_exc != 0 ==> (self->value_.id == __CPROVER_old(self->value_.id) && self->b.dirty_ == __CPROVER_old(self->b.dirty_) && self->value_has))
__CPROVER_ensures(nitro_exc == 0 ==> (self->value_has && self->b.dirty_ && self->value_.id == VALUE_ID_OF(&arg->arg_)));   /*@ holds_the_given_value_byte_for_byte */
void option_prepare(struct ooption *self)
__CPROVER_requires(nitro_exc == 0 && O_OBJ_OR_OK(option_prepare, self))
__CPROVER_assigns(self->value_has, self->value_, self->b.dirty_)
__CPROVER_ensures(nitro_exc == 0 && !self->value_has && !self->b.dirty_);                            /*@ nothing_left_of_an_earlier_parse */
void option_check(struct ooption *self)
__CPROVER_requires(nitro_exc == 0 && O_OBJ_OR_OK(option_check, self) && (!self->b.dirty_ || self->value_has))
__CPROVER_assigns(self->value_has, self->value_, self->b.dirty_, nitro_exc, g_env_name)
__CPROVER_ensures(nitro_exc == 0 || nitro_exc == EXC_PARSING_ERROR)
__CPROVER_ensures(__CPROVER_old(self->value_has) ==> (nitro_exc == 0 && self->value_has && self->value_.id == __CPROVER_old(self->value_.id) && self->b.dirty_ == __CPROVER_old(self->b.dirty_)))   /*@ command_line_wins */
#define OC_ENV (!__CPROVER_old(self->value_has) && self->b.env_.len != 0 && g_env_value.len != 0)
__CPROVER_ensures(OC_ENV ==> (nitro_exc == 0 && self->value_has && self->value_.id == g_env_value.id && self->b.dirty_ && g_env_name == self->b.env_.id))   /*@ environment_value_verbatim_and_provided */
#define OC_DEFAULT (!__CPROVER_old(self->value_has) && !OC_ENV && self->default_has)
__CPROVER_ensures(OC_DEFAULT ==> (nitro_exc == 0 && self->value_has && self->value_.id == self->default_.id && self->b.dirty_ == __CPROVER_old(self->b.dirty_)))   /*@ else_the_default_not_provided */
__CPROVER_ensures((!__CPROVER_old(self->value_has) && !OC_ENV && !self->default_has) ==> ((nitro_exc != 0) == !self->is_optional_ && !self->value_has));   /*@ no_source_fails_iff_required */
const struct ostr *option_get(const struct ooption *self)
__CPROVER_requires(nitro_exc == 0 && O_OBJ(self) && self->value_has)
__CPROVER_assigns()
__CPROVER_ensures(__CPROVER_return_value == &self->value_);

/* ---- multi_option ---- */
void multi_update_value(struct omulti *self, const struct user_input *arg)
__CPROVER_requires(nitro_exc == 0 && O_OBJ_OR_OK(multi_update_value, self) && O_OBJ_OR_ROK(multi_update_value, arg) && UI_WF(arg) && T_HAS_VALUE(&arg->arg_) && self->value_.count < OSTR_MAXLEN)
__CPROVER_assigns(self->value_, self->b.dirty_, nitro_exc)
__CPROVER_ensures(nitro_exc == 0 && self->b.dirty_ && self->value_.count == __CPROVER_old(self->value_.count) + 1)   /*@ one_more_value_at_the_end */
__CPROVER_ensures(__CPROVER_old(self->value_.count) == g_w ==> self->value_.w_id == VALUE_ID_OF(&arg->arg_))           /*@ it_is_the_given_value_byte_for_byte */
__CPROVER_ensures(__CPROVER_old(self->value_.count) != g_w ==> self->value_.w_id == __CPROVER_old(self->value_.w_id));   /*@ earlier_values_keep_their_order */
void multi_prepare(struct omulti *self)
__CPROVER_requires(nitro_exc == 0 && O_OBJ_OR_OK(multi_prepare, self))
__CPROVER_assigns(self->value_, self->b.dirty_)
__CPROVER_ensures(nitro_exc == 0 && self->value_.count == 0 && !self->b.dirty_);                      /*@ nothing_left_of_an_earlier_parse */
void multi_check(struct omulti *self)
__CPROVER_requires(nitro_exc == 0 && O_OBJ_OR_OK(multi_check, self) && g_pieces_total <= OSTR_MAXLEN && self->value_.count <= OSTR_MAXLEN)
__CPROVER_assigns(self->value_, self->b.dirty_, nitro_exc, g_env_name)
__CPROVER_ensures(nitro_exc == 0 || nitro_exc == EXC_PARSING_ERROR)
__CPROVER_ensures(__CPROVER_old(self->value_.count) != 0 ==> (nitro_exc == 0 && self->value_.count == __CPROVER_old(self->value_.count) && self->value_.w_id == __CPROVER_old(self->value_.w_id) && self->b.dirty_ == __CPROVER_old(self->b.dirty_)))   /*@ command_line_wins */
#define MC_ENV (__CPROVER_old(self->value_.count) == 0 && self->b.env_.len != 0 && g_env_value.len != 0)
__CPROVER_ensures(MC_ENV ==> (nitro_exc == 0 && self->value_.count == g_pieces_total && (g_w < g_pieces_total ==> self->value_.w_id == g_piece_w_id) && (g_pieces_total > 0 ==> self->b.dirty_)))   /*@ environment_value_split_at_semicolons_verbatim */
__CPROVER_ensures((__CPROVER_old(self->value_.count) == 0 && !MC_ENV && self->default_has) ==> (nitro_exc == 0 && self->value_.count == self->default_.count && self->value_.w_id == self->default_.w_id && self->b.dirty_ == __CPROVER_old(self->b.dirty_)))   /*@ else_the_default_not_provided */
__CPROVER_ensures((__CPROVER_old(self->value_.count) == 0 && !MC_ENV && !self->default_has) ==> ((nitro_exc != 0) == !self->is_optional_ && self->value_.count == 0));   /*@ no_source_fails_iff_required */
#define NITRO_LOOP_multi_check_1 \
  __CPROVER_assigns(str, element, self->value_, self->b.dirty_) \
  __CPROVER_loop_invariant(nitro_exc == 0 && str.next <= g_pieces_total && self->value_.count == str.next && (g_w < str.next ==> self->value_.w_id == g_piece_w_id) && (str.next > 0 ==> self->b.dirty_) && (str.next == 0 ==> self->b.dirty_ == __CPROVER_loop_entry(self->b.dirty_))) \
  __CPROVER_decreases(g_pieces_total - str.next)
size_t multi_count(const struct omulti *self)
__CPROVER_requires(nitro_exc == 0 && O_OBJ(self))
__CPROVER_assigns()
__CPROVER_ensures(__CPROVER_return_value == self->value_.count);

/* ======================= layer 3: the parser ======================= */
#ifndef NITRO_K
#define NITRO_K 2          /* declarations per kind (bound, DESIGN.md 4.1); the arrays hold them in key order */
#endif
struct oparser { struct ooption opts[NITRO_K]; size_t n_opts; struct omulti mopts[NITRO_K]; size_t n_mopts; struct otoggle toggles[NITRO_K]; size_t n_toggles;
                 size_t allowed_positionals_; nbool greedy_positionals_; };
/* std::set<std::string> of one-character short names: membership per table letter */
struct oletters { nbool has[NITRO_NL]; };
static inline void oletters_init(struct oletters *s) { s->has[0] = 0; s->has[1] = 0; s->has[2] = 0; s->has[3] = 0; }
static inline nbool oletters_emplace(struct oletters *s, const struct ostr *k)    /* emplace(k).second */
{ size_t j = LETTER_SLOT(k->b0); if (j >= NITRO_NL) return nondet_nbool(); if (s->has[j]) return 0; s->has[j] = 1; return 1; }
static inline size_t ui_short_total(const struct user_input *u) { struct omset l; ui_as_short_list(&l, u); return l.total; }    /* as_short_list().size() */
#define T_NLETTERS(a) (T_NAMELEN(a) - 1)
#define T_BUNDLE(a) (T_SHORT(a) && T_NLETTERS(a) > 1)
extern size_t g_oi;   /* witness index of a declared option / multi-option / toggle */

/* ---- try_parse_as_option (two instantiations) ----
 * the token *it either names none of the given options (false, nothing changes), or names one: then a bundle is rejected,
 * the value is the text after '=' or else the NEXT token, which must exist and be a value token and is consumed. */
/* the harness allocates typed objects (an untyped is_fresh block of several hundred bytes made the encoding explode) */
#define TPO_TOKENS_PRE(fn) (__CPROVER_rw_ok(it_ref, sizeof(*it_ref)) && __CPROVER_same_object(*it_ref, end) && *it_ref < end && \
   __CPROVER_r_ok(*it_ref, sizeof(struct user_input)) && (*it_ref + 1 == end || __CPROVER_r_ok(*it_ref + 1, sizeof(struct user_input))) && \
   UI_WF(*it_ref) && (*it_ref + 1 != end ==> UI_WF(*it_ref + 1)) && (*it_ref)->arg_.len < (1 << 20))
#define TPO_OPTS_PRE(fn, T) (n_options <= NITRO_K && __CPROVER_rw_ok(options, NITRO_K * sizeof(T)) && \
   (n_options > 0 ==> BASE_WF_V(options[0].b)) && (n_options > 1 ==> BASE_WF_V(options[1].b)))
#define TOK0 (__CPROVER_old(*it_ref))
#define TOK (&TOK0->arg_)
#define NXT (&(TOK0 + 1)->arg_)
#define TPO_M0 (n_options > 0 && M_BASE(&options[0].b, TOK))
#define TPO_M1 (n_options > 1 && !TPO_M0 && M_BASE(&options[1].b, TOK))
#define TPO_MATCH (TPO_M0 || TPO_M1)
#define TPO_NEXT_OK (TOK0 + 1 != end && T_VALUE(NXT))
#define TPO_VALUE_ID (T_HAS_VALUE(TOK) ? VALUE_ID_OF(TOK) : NXT->id)
#define TPO_CAN (!T_BUNDLE(TOK) && (T_HAS_VALUE(TOK) || TPO_NEXT_OK))
#define TPO_ADVANCE (*it_ref == TOK0 + (T_HAS_VALUE(TOK) ? 0 : 1))
#define OPT_SAME(j) (options[j].value_has == __CPROVER_old(options[j].value_has) && options[j].value_.id == __CPROVER_old(options[j].value_.id) && options[j].b.dirty_ == __CPROVER_old(options[j].b.dirty_))
#define OPT_SET(j) (options[j].value_has && options[j].b.dirty_ && options[j].value_.id == TPO_VALUE_ID)
nbool tpo_option(struct ooption *options, size_t n_options, const struct user_input **it_ref, const struct user_input *end)
__CPROVER_requires(nitro_exc == 0 && TPO_OPTS_PRE(tpo_option, struct ooption) && TPO_TOKENS_PRE(tpo_option))
__CPROVER_assigns(nitro_exc, *it_ref, g_at_next, g_at_hits, g_at_other, __CPROVER_object_whole(options))
__CPROVER_ensures(nitro_exc == 0 || nitro_exc == EXC_PARSING_ERROR)
__CPROVER_ensures(!TPO_MATCH ==> (nitro_exc == 0 && !__CPROVER_return_value && *it_ref == TOK0))                           /*@ unknown_name_is_not_consumed */
__CPROVER_ensures((TPO_MATCH && T_BUNDLE(TOK)) ==> nitro_exc != 0)                                                        /*@ option_letter_inside_a_bundle_is_rejected */
__CPROVER_ensures((TPO_MATCH && !T_BUNDLE(TOK) && !T_HAS_VALUE(TOK) && !TPO_NEXT_OK) ==> nitro_exc != 0)                  /*@ value_missing_is_rejected */
__CPROVER_ensures((TPO_CAN && ((TPO_M0 && __CPROVER_old(options[0].value_has)) || (TPO_M1 && __CPROVER_old(options[1].value_has)))) ==> nitro_exc != 0)   /*@ single_valued_option_given_twice_is_rejected */
__CPROVER_ensures((TPO_CAN && TPO_M0 && !__CPROVER_old(options[0].value_has)) ==> (nitro_exc == 0 && __CPROVER_return_value && OPT_SET(0) && TPO_ADVANCE))   /*@ option_gets_its_value_and_consumes_exactly_that_token */
__CPROVER_ensures((TPO_CAN && TPO_M1 && !__CPROVER_old(options[1].value_has)) ==> (nitro_exc == 0 && __CPROVER_return_value && OPT_SET(1) && TPO_ADVANCE))
__CPROVER_ensures((n_options > 0 && !TPO_M0) ==> OPT_SAME(0))                                                             /*@ other_options_untouched */
__CPROVER_ensures((n_options > 1 && !TPO_M1) ==> OPT_SAME(1))
__CPROVER_ensures(nitro_exc == 0 ==> (__CPROVER_return_value == TPO_MATCH));

#define MOPT_SAME(j) (options[j].value_.count == __CPROVER_old(options[j].value_.count) && options[j].value_.w_id == __CPROVER_old(options[j].value_.w_id) && options[j].b.dirty_ == __CPROVER_old(options[j].b.dirty_))
#define MOPT_PUSHED(j) (options[j].b.dirty_ && options[j].value_.count == __CPROVER_old(options[j].value_.count) + 1 && \
      (__CPROVER_old(options[j].value_.count) == g_w ==> options[j].value_.w_id == TPO_VALUE_ID) && (__CPROVER_old(options[j].value_.count) != g_w ==> options[j].value_.w_id == __CPROVER_old(options[j].value_.w_id)))
nbool tpo_multi(struct omulti *options, size_t n_options, const struct user_input **it_ref, const struct user_input *end)
__CPROVER_requires(nitro_exc == 0 && TPO_OPTS_PRE(tpo_multi, struct omulti) && TPO_TOKENS_PRE(tpo_multi))
__CPROVER_requires((n_options > 0 ==> options[0].value_.count < OSTR_MAXLEN) && (n_options > 1 ==> options[1].value_.count < OSTR_MAXLEN))
__CPROVER_assigns(nitro_exc, *it_ref, g_at_next, g_at_hits, g_at_other, __CPROVER_object_whole(options))
__CPROVER_ensures(nitro_exc == 0 || nitro_exc == EXC_PARSING_ERROR)
__CPROVER_ensures(!TPO_MATCH ==> (nitro_exc == 0 && !__CPROVER_return_value && *it_ref == TOK0))                           /*@ unknown_name_is_not_consumed */
__CPROVER_ensures((TPO_MATCH && T_BUNDLE(TOK)) ==> nitro_exc != 0)                                                        /*@ option_letter_inside_a_bundle_is_rejected */
__CPROVER_ensures((TPO_MATCH && !T_BUNDLE(TOK) && !T_HAS_VALUE(TOK) && !TPO_NEXT_OK) ==> nitro_exc != 0)                  /*@ value_missing_is_rejected */
__CPROVER_ensures((TPO_CAN && TPO_M0) ==> (nitro_exc == 0 && __CPROVER_return_value && MOPT_PUSHED(0) && TPO_ADVANCE))      /*@ value_appended_in_command_line_order */
__CPROVER_ensures((TPO_CAN && TPO_M1) ==> (nitro_exc == 0 && __CPROVER_return_value && MOPT_PUSHED(1) && TPO_ADVANCE))
__CPROVER_ensures((n_options > 0 && !TPO_M0) ==> MOPT_SAME(0))                                                            /*@ other_options_untouched */
__CPROVER_ensures((n_options > 1 && !TPO_M1) ==> MOPT_SAME(1))
__CPROVER_ensures(nitro_exc == 0 ==> (__CPROVER_return_value == TPO_MATCH));

/* ---- try_parse_as_toggle ---- */
#define TG(k) (&self->toggles[k])
#define IN (&in->arg_)
#define TGM(k) (self->n_toggles > (k) && M_TOGGLE(TG(k), IN))
#define TG_LETTERS (((self->n_toggles > 0 && M_LETTER(&TG(0)->b, IN)) ? LCOUNT(&TG(0)->b, IN) : 0) + ((self->n_toggles > 1 && M_LETTER(&TG(1)->b, IN)) ? LCOUNT(&TG(1)->b, IN) : 0))
/* the declared toggles are unambiguous: distinct names, distinct letters (what check_parser_consistency and the declaration functions guarantee) */
#define TOGGLES_DISTINCT (self->n_toggles < 2 || (TG(0)->b.name_.id != TG(1)->b.name_.id && (TG(0)->b.short_.len == 0 || TG(1)->b.short_.len == 0 || TG(0)->b.short_.b0 != TG(1)->b.short_.b0)))
#define TG_RANGE(k) (self->n_toggles <= (k) || (BASE_WF_V(TG(k)->b) && TG(k)->given_ >= 0 && TG(k)->given_ < (1 << 30) && TOGGLE_KF_PRE(TG(k), IN)))
#define TG_SAME(k) (TG(k)->given_ == __CPROVER_old(TG(k)->given_) && TG(k)->b.dirty_ == __CPROVER_old(TG(k)->b.dirty_))
#define TG_POS(k) TOGGLE_POSITIVE(TG(k), IN)
#define TG_CONFLICT(k) (TGM(k) && ((!TG_POS(k) && (!TG(k)->reversable_ || (__CPROVER_old(TG(k)->b.dirty_) && __CPROVER_old(TG(k)->given_) > 0))) || (TG_POS(k) && __CPROVER_old(TG(k)->b.dirty_) && __CPROVER_old(TG(k)->given_) == 0)))
#define TG_UPDATED(k) (TG(k)->b.dirty_ && TG(k)->given_ == (TG_POS(k) ? __CPROVER_old(TG(k)->given_) + (T_SHORT(IN) ? (int)LCOUNT(&TG(k)->b, IN) : 1) : 0))
nbool try_parse_as_toggle(struct oparser *self, const struct user_input *in)
__CPROVER_requires(nitro_exc == 0 && O_OBJ_OR_OK(try_parse_as_toggle, self) && O_OBJ_OR_ROK(try_parse_as_toggle, in) && UI_WF(in) && in->arg_.len < (1 << 20))
__CPROVER_requires(self->n_toggles <= NITRO_K && TG_RANGE(0) && TG_RANGE(1) && TOGGLES_DISTINCT && g_oi < NITRO_K)
__CPROVER_assigns(nitro_exc, g_at_next, g_at_hits, g_at_other, self->toggles)
__CPROVER_ensures(nitro_exc == 0 || nitro_exc == EXC_PARSING_ERROR)
__CPROVER_ensures((!TGM(0) && !TGM(1)) ==> (nitro_exc == 0 && !__CPROVER_return_value))                                        /*@ token_that_is_no_toggle_is_not_consumed */
__CPROVER_ensures(((TGM(0) || TGM(1)) && T_HAS_VALUE(IN)) ==> nitro_exc != 0)                                                 /*@ value_on_a_toggle_is_rejected */
__CPROVER_ensures(((TGM(0) || TGM(1)) && T_SHORT(IN) && TG_LETTERS != T_NLETTERS(IN)) ==> nitro_exc != 0)                      /*@ bundle_with_a_letter_that_is_no_toggle_is_rejected */
__CPROVER_ensures((TG_CONFLICT(0) || TG_CONFLICT(1)) ==> nitro_exc != 0)                                                      /*@ both_polarities_or_irreversible_no-_are_rejected */
__CPROVER_ensures(nitro_exc == 0 ==> (__CPROVER_return_value == (TGM(0) || TGM(1))))
__CPROVER_ensures((nitro_exc == 0 && TGM(0)) ==> TG_UPDATED(0))                                                              /*@ every_matching_toggle_is_counted */
__CPROVER_ensures((nitro_exc == 0 && TGM(1)) ==> TG_UPDATED(1))
__CPROVER_ensures((nitro_exc == 0 && __CPROVER_return_value && T_SHORT(IN)) ==> TG_LETTERS == T_NLETTERS(IN))                 /*@ every_letter_of_a_bundle_is_a_declared_toggle */
__CPROVER_ensures((self->n_toggles > 0 && !TGM(0)) ==> TG_SAME(0))                                                           /*@ other_toggles_untouched */
__CPROVER_ensures((self->n_toggles > 1 && !TGM(1)) ==> TG_SAME(1));
/* ---- prepare / validate / consistency ---- */
#define PARSER_PRE(fn) (nitro_exc == 0 && O_OBJ_OR_OK(fn, self) && self->n_opts <= NITRO_K && self->n_mopts <= NITRO_K && self->n_toggles <= NITRO_K && g_oi < NITRO_K)
void parser_prepare_options(struct oparser *self)
__CPROVER_requires(PARSER_PRE(parser_prepare_options))
__CPROVER_assigns(self->opts, self->mopts, self->toggles)
__CPROVER_ensures(nitro_exc == 0)
__CPROVER_ensures(g_oi < self->n_opts ==> (!self->opts[g_oi].value_has && !self->opts[g_oi].b.dirty_))                                 /*@ every_option_forgets_the_earlier_parse */
__CPROVER_ensures(g_oi < self->n_mopts ==> (self->mopts[g_oi].value_.count == 0 && !self->mopts[g_oi].b.dirty_))                      /*@ every_multi_option_forgets_the_earlier_parse */
__CPROVER_ensures(g_oi < self->n_toggles ==> (self->toggles[g_oi].given_ == 0 && !self->toggles[g_oi].b.dirty_));                     /*@ every_toggle_forgets_the_earlier_parse */

/* validate_options: every declared option, multi-option and toggle gets its check() (C03 decision table) */
#define OPT_CHECK_PRE(k) (self->n_opts <= (k) || !self->opts[k].b.dirty_ || self->opts[k].value_has)
#define MOPT_CHECK_PRE(k) (self->n_mopts <= (k) || self->mopts[k].value_.count <= OSTR_MAXLEN)
#define O_OLD(k, f) __CPROVER_old(self->opts[k].f)
#define OPT_FROM_ENV(k) (!O_OLD(k, value_has) && self->opts[k].b.env_.len != 0 && g_env_value.len != 0)
#define OPT_RAISES(k) (self->n_opts > (k) && !O_OLD(k, value_has) && !OPT_FROM_ENV(k) && !self->opts[k].default_has && !self->opts[k].is_optional_)
#define OPT_CHECKED(k) (self->n_opts <= (k) || ( \
    (O_OLD(k, value_has) ==> (self->opts[k].value_has && self->opts[k].value_.id == O_OLD(k, value_.id) && self->opts[k].b.dirty_ == O_OLD(k, b.dirty_))) && \
    (OPT_FROM_ENV(k) ==> (self->opts[k].value_has && self->opts[k].value_.id == g_env_value.id && self->opts[k].b.dirty_)) && \
    ((!O_OLD(k, value_has) && !OPT_FROM_ENV(k) && self->opts[k].default_has) ==> (self->opts[k].value_has && self->opts[k].value_.id == self->opts[k].default_.id && self->opts[k].b.dirty_ == O_OLD(k, b.dirty_))) && \
    ((!O_OLD(k, value_has) && !OPT_FROM_ENV(k) && !self->opts[k].default_has) ==> !self->opts[k].value_has)))
#define M_OLD(k, f) __CPROVER_old(self->mopts[k].f)
#define MOPT_FROM_ENV(k) (M_OLD(k, value_.count) == 0 && self->mopts[k].b.env_.len != 0 && g_env_value.len != 0)
#define MOPT_RAISES(k) (self->n_mopts > (k) && M_OLD(k, value_.count) == 0 && !MOPT_FROM_ENV(k) && !self->mopts[k].default_has && !self->mopts[k].is_optional_)
#define MOPT_CHECKED(k) (self->n_mopts <= (k) || ( \
    (M_OLD(k, value_.count) != 0 ==> (self->mopts[k].value_.count == M_OLD(k, value_.count) && self->mopts[k].value_.w_id == M_OLD(k, value_.w_id) && self->mopts[k].b.dirty_ == M_OLD(k, b.dirty_))) && \
    (MOPT_FROM_ENV(k) ==> (self->mopts[k].value_.count == g_pieces_total && (g_w < g_pieces_total ==> self->mopts[k].value_.w_id == g_piece_w_id))) && \
    ((M_OLD(k, value_.count) == 0 && !MOPT_FROM_ENV(k) && self->mopts[k].default_has) ==> (self->mopts[k].value_.count == self->mopts[k].default_.count && self->mopts[k].value_.w_id == self->mopts[k].default_.w_id && self->mopts[k].b.dirty_ == M_OLD(k, b.dirty_)))))
#define T_OLD(k, f) __CPROVER_old(self->toggles[k].f)
#define TOG_FROM_ENV(k) (!T_OLD(k, b.dirty_) && self->toggles[k].b.env_.len != 0 && g_env_value.len != 0)
#define TOG_RAISES(k) (self->n_toggles > (k) && TOG_FROM_ENV(k) && !WORD_TRUTHY(&g_env_value) && !WORD_FALSY(&g_env_value))
#define TOG_CHECKED(k) (self->n_toggles <= (k) || ( \
    (T_OLD(k, b.dirty_) ==> (self->toggles[k].given_ == T_OLD(k, given_) && self->toggles[k].b.dirty_)) && \
    (TOG_FROM_ENV(k) ==> (self->toggles[k].given_ == (WORD_TRUTHY(&g_env_value) ? 1 : 0) && self->toggles[k].b.dirty_)) && \
    ((!T_OLD(k, b.dirty_) && !TOG_FROM_ENV(k)) ==> (self->toggles[k].given_ == self->toggles[k].default_ && !self->toggles[k].b.dirty_))))
void parser_validate_options(struct oparser *self)
__CPROVER_requires(PARSER_PRE(parser_validate_options) && OPT_CHECK_PRE(0) && OPT_CHECK_PRE(1) && MOPT_CHECK_PRE(0) && MOPT_CHECK_PRE(1) && g_pieces_total <= OSTR_MAXLEN)
__CPROVER_assigns(self->opts, self->mopts, self->toggles, nitro_exc, g_env_name)
__CPROVER_ensures(nitro_exc == 0 || nitro_exc == EXC_PARSING_ERROR)                                                       /*@ only_the_user_input_error */
__CPROVER_ensures((nitro_exc != 0) == (OPT_RAISES(0) || OPT_RAISES(1) || MOPT_RAISES(0) || MOPT_RAISES(1) || TOG_RAISES(0) || TOG_RAISES(1)))   /*@ fails_iff_a_required_option_has_no_source_or_an_environment_word_is_unparsable */
__CPROVER_ensures(nitro_exc == 0 ==> (OPT_CHECKED(0) && OPT_CHECKED(1)))                                                  /*@ options_ranked_command_line_environment_default */
__CPROVER_ensures(nitro_exc == 0 ==> (MOPT_CHECKED(0) && MOPT_CHECKED(1)))                                                /*@ multi_options_ranked_command_line_environment_default */
__CPROVER_ensures(nitro_exc == 0 ==> (TOG_CHECKED(0) && TOG_CHECKED(1)));                                                 /*@ toggles_ranked_command_line_environment_default */

/* check_parser_consistency: refuses (developer error) iff two declared options share a letter */
static inline nbool parser_dup_letters_v(struct oparser p)
{
    size_t s[6];
    s[0] = (p.n_opts > 0 && p.opts[0].b.short_.len != 0) ? LETTER_SLOT(p.opts[0].b.short_.b0) : NITRO_NL;
    s[1] = (p.n_opts > 1 && p.opts[1].b.short_.len != 0) ? LETTER_SLOT(p.opts[1].b.short_.b0) : NITRO_NL;
    s[2] = (p.n_mopts > 0 && p.mopts[0].b.short_.len != 0) ? LETTER_SLOT(p.mopts[0].b.short_.b0) : NITRO_NL;
    s[3] = (p.n_mopts > 1 && p.mopts[1].b.short_.len != 0) ? LETTER_SLOT(p.mopts[1].b.short_.b0) : NITRO_NL;
    s[4] = (p.n_toggles > 0 && p.toggles[0].b.short_.len != 0) ? LETTER_SLOT(p.toggles[0].b.short_.b0) : NITRO_NL;
    s[5] = (p.n_toggles > 1 && p.toggles[1].b.short_.len != 0) ? LETTER_SLOT(p.toggles[1].b.short_.b0) : NITRO_NL;
#define SAME(a, b) (s[a] != NITRO_NL && s[a] == s[b])
    return SAME(0, 1) || SAME(0, 2) || SAME(0, 3) || SAME(0, 4) || SAME(0, 5) || SAME(1, 2) || SAME(1, 3) || SAME(1, 4) || SAME(1, 5) ||
           SAME(2, 3) || SAME(2, 4) || SAME(2, 5) || SAME(3, 4) || SAME(3, 5) || SAME(4, 5);
#undef SAME
}
#define DECL_LETTERS_IN_TABLE (LETTERS_WF && (self->n_opts <= 0 || BASE_WF_V(self->opts[0].b)) && (self->n_opts <= 1 || BASE_WF_V(self->opts[1].b)) && (self->n_mopts <= 0 || BASE_WF_V(self->mopts[0].b)) && \
    (self->n_mopts <= 1 || BASE_WF_V(self->mopts[1].b)) && (self->n_toggles <= 0 || BASE_WF_V(self->toggles[0].b)) && (self->n_toggles <= 1 || BASE_WF_V(self->toggles[1].b)))
void parser_check_consistency(struct oparser *self)
__CPROVER_requires(PARSER_PRE(parser_check_consistency) && DECL_LETTERS_IN_TABLE)
__CPROVER_assigns(nitro_exc)
__CPROVER_ensures(nitro_exc == 0 || nitro_exc == EXC_PARSER_ERROR)
__CPROVER_ensures((nitro_exc != 0) == parser_dup_letters_v(*self));                                                       /*@ refuses_to_parse_iff_two_options_share_a_letter */

void parser_greedy_postionals(struct oparser *self, nbool enabled)
__CPROVER_requires(nitro_exc == 0 && O_OBJ(self))
__CPROVER_assigns(self->greedy_positionals_)
__CPROVER_ensures(self->greedy_positionals_ == enabled);
void parser_accept_positionals(struct oparser *self, size_t amount)
__CPROVER_requires(nitro_exc == 0 && O_OBJ(self))
__CPROVER_assigns(self->allowed_positionals_)
__CPROVER_ensures(self->allowed_positionals_ == amount);
#pragma CPROVER check pop
#endif
