// Native replay for the options unit: the REAL nitro::options parser is compared with a reference written from the text of
// properties C01-C04, C11, C12, C14 over an exhaustive small universe: 3 declarations x every argument vector of up to 3 tokens
// from a 24-token alphabet, plus environment/default sweeps and repeated parses.
//   opt_replay [job]      exit 1 = deviation printed (first few), exit 0 = none
// Tokens that the listed known findings cover are skipped and counted (malformed_dash_in_positional_part: a malformed dash token after -- or, in greedy mode, after the first positional).
#include <nitro/options/parser.hpp>
#include <nitro/io/terminal.hpp>
#include <cstring>
#include <cstdio>
#include <cstdlib>
#include <map>
#include <set>
#include <sstream>
#include <string>
#include <vector>
using namespace nitro::options;
using S = std::string;
using V = std::vector<S>;

struct TDecl { S name, sh; bool rev; S env; int def; };
struct ODecl { S name, sh, env; bool has_def; S def; bool optional; };
struct MDecl { S name, sh, env; bool has_def; V def; bool optional; };
struct Decl { std::vector<TDecl> t; std::vector<ODecl> o; std::vector<MDecl> m; long accepted; bool greedy; };

struct Res
{
    bool ok = false; int exc = 0;   // exc: 1 parsing_error, 2 parser_error, 3 other
    std::map<S, S> opt; std::set<S> opt_absent; std::map<S, V> multi; std::map<S, int> tog; V pos; std::set<S> provided;
    bool operator==(const Res& r) const
    { return ok == r.ok && (!ok ? (exc == r.exc) : (opt == r.opt && opt_absent == r.opt_absent && multi == r.multi && tog == r.tog && pos == r.pos && provided == r.provided)); }
};

static void declare(parser& p, const Decl& d)
{
    for (auto& t : d.t) { auto& x = p.toggle(t.name); if (!t.sh.empty()) x.short_name(t.sh); if (t.rev) x.allow_reverse(); if (!t.env.empty()) x.env(t.env); if (t.def) x.default_value(t.def); }
    for (auto& o : d.o) { auto& x = p.option(o.name); if (!o.sh.empty()) x.short_name(o.sh); if (!o.env.empty()) x.env(o.env); if (o.has_def) x.default_value(o.def); if (o.optional) x.optional(); }
    for (auto& m : d.m) { auto& x = p.multi_option(m.name); if (!m.sh.empty()) x.short_name(m.sh); if (!m.env.empty()) x.env(m.env); if (m.has_def) x.default_value(m.def); if (m.optional) x.optional(); }
    if (d.accepted < 0) p.accept_positionals(); else p.accept_positionals((std::size_t)d.accepted);
    if (d.greedy) p.greedy_postionals();
}
static Res real_parse(parser& p, const Decl& d, const V& args)
{
    Res r; std::vector<const char*> av{ "prog" };
    for (auto& a : args) av.push_back(a.c_str());
    try
    {
        auto a = p.parse((int)av.size(), av.data());
        r.ok = true;
        for (auto& o : d.o) { try { r.opt[o.name] = a.get(o.name); } catch (std::exception&) { r.opt_absent.insert(o.name); } if (a.provided(o.name)) r.provided.insert(o.name); }
        for (auto& m : d.m) { r.multi[m.name] = a.get_all(m.name); if (a.provided(m.name)) r.provided.insert(m.name); }
        for (auto& t : d.t) { r.tog[t.name] = a.given(t.name); if (a.provided(t.name)) r.provided.insert(t.name); }
        r.pos = a.positionals();
        // C12: index -k addresses the k-th positional from the end
        for (int k = 1; k <= (int)r.pos.size(); ++k) if (a.get(-k) != r.pos[r.pos.size() - k] || a[k - 1] != r.pos[k - 1]) { r.ok = false; r.exc = 9; }
        if (!r.pos.empty())
            for (int k : { (int)r.pos.size(), (int)r.pos.size() + 1, -(int)r.pos.size() - 1, -(int)r.pos.size() - 2 })   // anything else is out of range, never another element
            { bool threw = false; try { (void)a.get(k); } catch (std::out_of_range&) { threw = true; } if (!threw) { r.ok = false; r.exc = 8; } }
    }
    catch (parsing_error&) { r.exc = 1; } catch (parser_error&) { r.exc = 2; } catch (std::exception&) { r.exc = 3; }
    return r;
}

// ---- the reference (from the property text) ----
static bool is_value(const S& t) { return t.empty() || t[0] != '-'; }
static bool malformed(const S& t)
{   // a dash token that is neither --, nor -<letters>[=v], nor --<name>[=v]
    if (is_value(t) || t == "--") return false;
    size_t i = (t.size() > 1 && t[1] == '-') ? 2 : 1;
    return i >= t.size() || t[i] == '-' || t[i] == '=';
}
static const char* TRUTHY[] = { "TRUE", "ON", "YES", "true", "on", "yes", "1", "Y", "with", "True", "On", "WITH", "With", "y", "Yes" };
static const char* FALSY[] = { "false", "FALSE", "without", "0", "NO", "no", "Without", "n", "off", "OFF", "N", "False", "Off", "WITHOUT", "No" };
static bool kf_hit;   // the vector has a malformed dash token in its positional part (known finding malformed_dash_in_positional_part)
static Res ref_parse(const Decl& d, const V& args)
{
    Res r; r.exc = 1; kf_hit = false;
    {   // positional part: after the first --, or in greedy mode after the first positional (a prefix property, decided before anything can fail)
        bool m = false; size_t np = 0;
        for (size_t i = 0; i < args.size(); ++i)
        {
            const S& t = args[i];
            if (m) { if (malformed(t)) kf_hit = true; continue; }
            if (t == "--") { m = true; continue; }
            if (is_value(t)) { ++np; if (d.greedy) m = true; continue; }
            if (malformed(t)) break;
            bool takes = false; size_t eq = t.find('='); S name = t.substr(0, eq); bool sh = name[1] != '-'; S key = sh ? name.substr(1) : name.substr(2);
            for (auto& o : d.o) if (sh ? (key.size() == 1 && o.sh == key) : o.name == key) takes = true;
            for (auto& mm : d.m) if (sh ? (key.size() == 1 && mm.sh == key) : mm.name == key) takes = true;
            if (takes && eq == S::npos) ++i;
        }
    }
    std::map<S, int> cnt; std::set<S> pos_given, neg_given;
    bool mode = false;
    for (size_t i = 0; i < args.size(); ++i)
    {
        const S& t = args[i];
        if (mode || is_value(t)) { if (d.accepted >= 0 && (long)r.pos.size() >= d.accepted) return r; r.pos.push_back(t); if (d.greedy) mode = true; continue; }
        if (t == "--") { mode = true; continue; }
        if (malformed(t)) return r;
        size_t eq = t.find('='); bool hv = eq != S::npos; S name = t.substr(0, eq), val = hv ? t.substr(eq + 1) : S();
        bool sh = name[1] != '-';
        S key = sh ? name.substr(1) : name.substr(2);
        const ODecl* od = nullptr; const MDecl* md = nullptr;
        for (auto& o : d.o) if (sh ? (key.size() == 1 && o.sh == key) : o.name == key) od = &o;
        for (auto& m : d.m) if (sh ? (key.size() == 1 && m.sh == key) : m.name == key) md = &m;
        if (od || md)
        {
            if (!hv) { if (i + 1 >= args.size() || !is_value(args[i + 1])) return r; val = args[++i]; }
            if (od) { if (r.opt.count(od->name)) return r; r.opt[od->name] = val; r.provided.insert(od->name); }
            else { r.multi[md->name].push_back(val); r.provided.insert(md->name); }
            continue;
        }
        if (hv) return r;                       // =value on a toggle, or an unknown name
        if (sh)
        {
            for (char c : key)
            {
                const TDecl* td = nullptr;
                for (auto& x : d.t) if (x.sh == S(1, c)) td = &x;
                if (!td) return r;              // unknown letter, or a value-taking option's letter inside a bundle
                if (neg_given.count(td->name)) return r;
                cnt[td->name]++; pos_given.insert(td->name);
            }
            continue;
        }
        const TDecl* td = nullptr; bool neg = false;
        for (auto& x : d.t) if (x.name == key) td = &x;
        if (!td && key.compare(0, 3, "no-") == 0) { for (auto& x : d.t) if (x.name == key.substr(3)) { td = &x; neg = true; } }
        if (!td) return r;
        if (!neg) { if (neg_given.count(td->name)) return r; cnt[td->name]++; pos_given.insert(td->name); }
        else { if (!td->rev || pos_given.count(td->name)) return r; neg_given.insert(td->name); }
    }
    for (auto& o : d.o)
    {
        if (r.opt.count(o.name)) continue;
        const char* e = o.env.empty() ? nullptr : getenv(o.env.c_str());
        if (e && *e) { r.opt[o.name] = e; r.provided.insert(o.name); }
        else if (o.has_def) r.opt[o.name] = o.def;
        else if (o.optional) r.opt_absent.insert(o.name);
        else return r;
    }
    for (auto& m : d.m)
    {
        if (r.multi.count(m.name)) continue;
        const char* e = m.env.empty() ? nullptr : getenv(m.env.c_str());
        if (e && *e)
        {
            S s = e, piece; V v; std::stringstream st(s);
            while (std::getline(st, piece, ';')) v.push_back(piece);
            r.multi[m.name] = v; r.provided.insert(m.name);
        }
        else if (m.has_def) r.multi[m.name] = m.def;
        else if (m.optional) r.multi[m.name] = V();
        else return r;
    }
    for (auto& t : d.t)
    {
        if (pos_given.count(t.name)) { r.tog[t.name] = cnt[t.name]; r.provided.insert(t.name); continue; }
        if (neg_given.count(t.name)) { r.tog[t.name] = 0; r.provided.insert(t.name); continue; }
        const char* e = t.env.empty() ? nullptr : getenv(t.env.c_str());
        if (e && *e)
        {
            int w = -1;
            for (auto x : TRUTHY) if (S(x) == e) w = 1;
            for (auto x : FALSY) if (S(x) == e) w = 0;
            if (w < 0) return r;
            r.tog[t.name] = w; r.provided.insert(t.name);
        }
        else r.tog[t.name] = t.def;
    }
    r.ok = true; r.exc = 0;
    return r;
}

static int deviations = 0; static long cases = 0, skipped_kf = 0;
static S show(const V& a) { S s; for (auto& x : a) s += "[" + x + "] "; return s; }
static S show(const Res& r)
{
    if (!r.ok) return "error(" + std::to_string(r.exc) + ")";
    std::stringstream s; s << "ok";
    for (auto& o : r.opt) s << " " << o.first << "='" << o.second << "'";
    for (auto& o : r.opt_absent) s << " " << o << "=<absent>";
    for (auto& m : r.multi) { s << " " << m.first << "={"; for (auto& x : m.second) s << "'" << x << "',"; s << "}"; }
    for (auto& t : r.tog) s << " " << t.first << "#" << t.second;
    s << " pos={"; for (auto& x : r.pos) s << "'" << x << "',"; s << "} provided={"; for (auto& x : r.provided) s << x << ","; s << "}";
    return s.str();
}
static void compare(const char* what, int di, const Res& got, const Res& want, const V& args, const S& env = "")
{
    ++cases;
    if (got == want) return;
    if (++deviations <= 8)
        std::printf("DEVIATION %s: declaration %d, argv %s%s\n    real:      %s\n    reference: %s\n", what, di, show(args).c_str(), env.c_str(), show(got).c_str(), show(want).c_str());
}

// ---- format_padded (C15): every word once and in order; no line beyond max_width unless a word on it is longer than a whole line
static int sweep_format_padded()
{
    long n = 0; int dev = 0;
    const int W = 12;
    for (int left_pad : { 0, 3, 5 }) for (int prefix = 0; prefix <= 7; ++prefix)
        for (int a = 0; a <= 13; ++a) for (int b = 0; b <= 13; ++b) for (int c = -1; c <= 13; ++c)
        {
            V words = { S(a, 'a'), S(b, 'b') }; if (c >= 0) words.push_back(S(c, 'c'));
            S text; for (size_t i = 0; i < words.size(); ++i) text += (i ? " " : "") + words[i];
            std::stringstream s; s << S(prefix, '#');
            nitro::io::terminal::format_padded(s, text, left_pad, W);
            S out = s.str().substr(prefix); ++n;
            // words in order (blank-separated, empty words vanish)
            V got; { std::stringstream t(out); S w; while (t >> w) got.push_back(w); }
            V want; for (auto& w : words) if (!w.empty()) want.push_back(w);
            bool ok = got == want;
            // line widths
            std::stringstream l(S(prefix, '#') + out); S line; 
            while (std::getline(l, line))
            {
                bool forced = false; { std::stringstream t(line); S w; while (t >> w) if (w[0] != '#' && (int)w.size() + 1 > W - left_pad) forced = true; }
                if ((int)line.size() > W && !forced && line.find('#') == S::npos) ok = false;
                if ((int)line.size() > W && !forced && line.find('#') != S::npos && prefix <= left_pad) ok = false;
                // a stream that already stands beyond left_pad: the first word that fits a line of its own goes to a new line
                if (line.find('#') != S::npos && prefix > left_pad && !forced && line != S(prefix, '#')) ok = false;
            }
            if (!ok && ++dev <= 5) std::printf("DEVIATION format_padded(left_pad=%d, max_width=%d) on a stream holding %d characters, text '%s':\n%s\n", left_pad, W, prefix, text.c_str(), out.c_str());
        }
    std::printf("format_padded: %ld cases, %d deviations\n", n, dev);
    return dev ? 1 : 0;
}

// ---- declarations (C13): one meaning per long name across groups and kinds
static int sweep_declarations()
{
    long n = 0; int dev = 0;
    const char* names[] = { "a", "b" };
    const int OPS = 2 * 3 * 2;    // group x kind x name
    for (int len = 1; len <= 4; ++len)
    {
        long total = 1; for (int i = 0; i < len; ++i) total *= OPS;
        for (long code = 0; code < total; ++code)
        {
            parser p; auto& g1 = p.group("g1");
            std::map<S, std::pair<int, int>> ref; std::map<S, const void*> addr;
            long c = code; bool ok = true; S trace;
            for (int i = 0; i < len && ok; ++i, c /= OPS)
            {
                int op = (int)(c % OPS), grp = op / 6, kind = (op / 2) % 3; S name = names[op % 2];
                nitro::options::group& g = grp ? g1 : p.group();
                const void* got = nullptr; int exc = 0;
                try { if (kind == 0) got = &g.option(name); else if (kind == 1) got = &g.multi_option(name); else got = &g.toggle(name); }
                catch (parser_error&) { exc = 2; } catch (std::exception&) { exc = 3; }
                trace += " " + S(grp ? "g1." : "default.") + (kind == 0 ? "option(" : kind == 1 ? "multi_option(" : "toggle(") + name + ")";
                auto it = ref.find(name);
                if (it == ref.end()) { if (exc != 0) ok = false; else { ref[name] = { grp, kind }; addr[name] = got; } }
                else if (it->second == std::make_pair(grp, kind)) { if (exc != 0 || got != addr[name]) ok = false; }
                else if (exc != 2) ok = false;
            }
            // C15: every declared option is listed exactly once in the option section of the usage text
            if (ok)
            {
                std::stringstream us; p.usage(us); S text = us.str();
                for (auto& r : ref)
                {
                    size_t cnt = 0, pos = 0; S needle = "  --" + r.first;
                    while ((pos = text.find("\n" + needle, pos)) != S::npos) { ++cnt; pos += needle.size(); }
                    if (cnt != 1) { ok = false; trace += "   [usage lists --" + r.first + " " + std::to_string(cnt) + " times]"; }
                }
            }
            ++n;
            if (!ok && ++dev <= 5) std::printf("DEVIATION declarations:%s\n", trace.c_str());
        }
    }
    std::printf("declarations: %ld sequences, %d deviations\n", n, dev);
    return dev ? 1 : 0;
}

// ---- consistency (C13): a parser in which two options share a letter refuses to parse - whenever and however they were declared
static int sweep_consistency()
{
    long n = 0; int dev = 0;
    const char* names[] = { "a", "b", "c" }; const char* letters[] = { "", "x", "y" };
    const int OPS = 2 * 3 * 3 + 1;          // declare (parser|group g1) x name x letter, or parse
    for (int len = 1; len <= 4; ++len)
    {
        long total = 1; for (int i = 0; i < len; ++i) total *= OPS;
        for (long code = 0; code < total; ++code)
        {
            parser p; auto& g1 = p.group("g1");
            std::map<S, std::pair<int, S>> ref; long c = code; bool ok = true; S trace;
            for (int i = 0; i < len && ok; ++i, c /= OPS)
            {
                int op = (int)(c % OPS);
                if (op == OPS - 1)
                {
                    std::map<S, int> cnt; bool dup = false; for (auto& r : ref) if (!r.second.second.empty() && ++cnt[r.second.second] > 1) dup = true;
                    const char* av[] = { "prog" }; int exc = 0;
                    try { p.parse(1, av); } catch (parser_error&) { exc = 2; } catch (std::exception&) { exc = 3; }
                    trace += " parse()"; if (exc != (dup ? 2 : 0)) ok = false;
                    continue;
                }
                int via = op / 9; S name = names[(op / 3) % 3], letter = letters[op % 3];
                trace += S(via ? " g1." : " parser.") + "toggle(" + name + ")" + (letter.empty() ? S() : ".short_name(" + letter + ")");
                int exc = 0; auto it = ref.find(name);
                int want = 0;
                if (it != ref.end() && it->second.first != via) want = 2;
                else if (!letter.empty() && it != ref.end() && !it->second.second.empty() && it->second.second != letter) want = 2;
                try { auto& t = via ? g1.toggle(name) : p.toggle(name); if (it == ref.end()) ref[name] = { via, "" }; if (!letter.empty()) { t.short_name(letter); ref[name].second = letter; } }
                catch (parser_error&) { exc = 2; } catch (std::exception&) { exc = 3; }
                if (exc != want) ok = false;
            }
            ++n;
            if (!ok && ++dev <= 5) std::printf("DEVIATION consistency:%s\n", trace.c_str());
        }
    }
    for (const char* bad : { "", "xy", "abc" })
    {   // a short name is exactly one character
        parser p; int exc = 0;
        try { p.toggle("t").short_name(bad); } catch (parser_error&) { exc = 2; } catch (std::exception&) { exc = 3; }
        ++n; if (exc != 2 && ++dev <= 5) std::printf("DEVIATION consistency: toggle(t).short_name(\"%s\") was accepted\n", bad);
        parser q; exc = 0;
        try { q.option("o").short_name(bad); } catch (parser_error&) { exc = 2; } catch (std::exception&) { exc = 3; }
        ++n; if (exc != 2 && ++dev <= 5) std::printf("DEVIATION consistency: option(o).short_name(\"%s\") was accepted\n", bad);
    }
    std::printf("consistency: %ld sequences, %d deviations\n", n, dev);
    return dev ? 1 : 0;
}

int main(int argc, char** argv)
{
    if (argc > 1 && !std::strcmp(argv[1], "format_padded")) return sweep_format_padded();
    if (argc > 1 && (!std::strncmp(argv[1], "parser_check", 12) || !std::strncmp(argv[1], "crtp_short", 10))) return sweep_consistency();

    if (argc > 1 && (!std::strncmp(argv[1], "group_", 6) || !std::strncmp(argv[1], "parser_has", 10) || !std::strncmp(argv[1], "parser_get_all", 14))) return sweep_declarations();
    int pre = 0;
    if (argc > 1 && !std::strcmp(argv[1], "thorough")) { pre = sweep_format_padded() | sweep_consistency() | sweep_declarations(); }
    const char* E1 = "NITRO_REPLAY_E1"; const char* E2 = "NITRO_REPLAY_E2"; const char* E3 = "NITRO_REPLAY_E3";
    std::vector<Decl> decls = {
        { { { "verbose", "v", false, "", 0 }, { "all", "a", true, "", 0 } }, { { "out", "o", "", false, "", true } }, { { "inc", "i", "", false, {}, true } }, 2, false },
        { { { "verbose", "v", true, "", 0 } }, { { "out", "o", "", true, "dflt", false }, { "x", "", "", false, "", false } }, {}, -1, true },
        { { { "all", "", false, "", 1 } }, { { "out", "", "", false, "", true } }, { { "inc", "i", "", true, { "d1", "d2" }, false } }, 1, true },
    };
    V alpha = { "-v", "-a", "-va", "-vv", "-vz", "-vo", "--verbose", "--all", "--no-all", "--no-verbose", "--out", "--out=f=g", "--out=", "-o", "-o=f", "--inc", "-i",
                "f", "", "--", "-", "---x", "-=x", "--unknown", "--verbose=1", "-v=1", "--x", "--x=1", "a=b" };
    unsetenv(E1); unsetenv(E2); unsetenv(E3);
    // 1. every argument vector of up to 3 tokens (C01, C02, C04, C11, C12), each parsed twice on the same parser (C14)
    for (size_t di = 0; di < decls.size(); ++di)
    {
        parser reused; declare(reused, decls[di]);
        std::vector<V> vecs{ V() };
        for (auto& a : alpha) vecs.push_back({ a });
        for (auto& a : alpha) for (auto& b : alpha) vecs.push_back({ a, b });
        for (auto& a : alpha) for (auto& b : alpha) for (auto& c : alpha) vecs.push_back({ a, b, c });
        for (auto& args : vecs)
        {
            Res want = ref_parse(decls[di], args);
            if (kf_hit) { ++skipped_kf; continue; }
            parser fresh; declare(fresh, decls[di]);
            compare("fresh parser", (int)di, real_parse(fresh, decls[di], args), want, args);
            if (args.size() <= 2) compare("parser that has parsed before (C14)", (int)di, real_parse(reused, decls[di], args), want, args);
        }
    }
    // 2. value sources (C03, C11): environment words and defaults
    std::vector<Decl> edecls = {
        { { { "t", "t", true, E1, 0 }, { "u", "", false, E1, 1 } }, { { "o", "o", E2, false, "", false }, { "p", "", E2, true, "dd", false }, { "q", "", E2, false, "", true } },
          { { "m", "m", E3, false, {}, false }, { "n", "", E3, true, { "x" }, false }, { "k", "", E3, false, {}, true } }, 0, false } };
    V words = { "", "TRUE", "ON", "YES", "true", "on", "yes", "1", "Y", "with", "True", "On", "WITH", "With", "y", "Yes", "false", "FALSE", "without", "0", "NO", "no", "Without", "n", "off", "OFF", "N",
                "False", "Off", "WITHOUT", "No", "2", "tRUE", "yes ", "-1", "enable" };
    V values = { "", "v", "-5", "--a=b", "a=b", "=", " ", "a;b", "x=1;-y", ";", "a;;b", "a;" };
    std::vector<V> cmds = { {}, { "-t" }, { "--no-t" }, { "--o", "c" }, { "-m", "c", "--m=d" }, { "--o=c", "-t", "--m", "e" }, { "--p=1", "--q=2", "--n", "3", "--k=4", "--u" } };
    for (auto& w : words) for (auto& v : values) for (auto& mv : values) for (auto& c : cmds)
    {
        if (w.empty()) unsetenv(E1); else setenv(E1, w.c_str(), 1);
        if (v == "v") unsetenv(E2); else setenv(E2, v.c_str(), 1);
        if (mv == "v") unsetenv(E3); else setenv(E3, mv.c_str(), 1);
        parser p; declare(p, edecls[0]);
        compare("value sources", 100, real_parse(p, edecls[0], c), ref_parse(edecls[0], c), c, " env E1='" + w + "' E2='" + v + "' E3='" + mv + "'");
    }
    unsetenv(E1); unsetenv(E2); unsetenv(E3);
    std::printf("%ld cases compared, %d deviations, %ld vectors inside the known finding malformed_dash_in_positional_part skipped\n", cases, deviations, skipped_kf);
    return (deviations || pre) ? 1 : 0;
}
