"""Native replay hook of the options unit: the counterexample is abstract (interned strings, witness letters), so the real parser
is swept exhaustively over a small universe of declarations, argument vectors and environments against a reference written
from the property text (replay.cpp)."""
import glob
import os
from vf import replay as R
HERE = os.path.dirname(os.path.abspath(__file__))
THOROUGH_SWEEP = True
SWEEP_BOUND = ("real nitro::options parser vs reference written from C01-C04/C11/C12/C14: 3 declarations x every argument vector of <= 3 tokens "
               "from a 29-token alphabet (each parsed on a fresh and on a reused parser), plus 36 x 12 x 12 x 7 environment/default combinations")


def native_replay(job, inputs, bdir):
    return False, {"note": "abstract counterexample (token and name identities): concretised by the exhaustive small-universe sweep"}


def native_sweep(job, bdir):
    exe = os.path.join(bdir, "opt_replay")
    if not os.path.exists(exe):
        srcs = sorted(glob.glob(os.path.join(R.REPO, "src", "options", "*.cpp"))) + [os.path.join(R.REPO, "src", "env", "get.cpp")]
        rc, out = R.build_native(os.path.join(HERE, "replay.cpp"), exe, extra=srcs)
        if rc != 0:
            return False, {"build_error": out}
    rc, out = R.run_native([exe, job], timeout=600)
    return (rc != 0 and rc != 2), {"cmd": "opt_replay " + job, "exit": rc, "output": out.strip()[-1500:]}
