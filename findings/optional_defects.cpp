// C18: assigning an empty optional must empty the target.   g++ -std=c++17 -I<tree>/include optional_defects.cpp && ./a.out   (exit 1 = deviation)
#include <nitro/lang/optional.hpp>
#include <cstdio>
int main()
{
    nitro::lang::optional<int> a(5), empty;
    a = empty;
    if (a) { std::printf("DEVIATION C18 a = empty keeps the old value %d\n", *a); return 1; }
    std::printf("ok        C18 assigning an empty optional empties the target\n");
    return 0;
}
