// Deviations of nitro::options from C01-C04, C11-C15 against the real library.  Each case prints DEVIATION when present.
// g++ -std=c++17 -I<tree>/include options_defects.cpp <tree>/src/options/*.cpp <tree>/src/env/get.cpp -o t && ./t   (exit 1 = some deviation)
#include <nitro/options/parser.hpp>
#include <cstdio>
#include <cstdlib>
#include <sstream>
#include <string>
#include <vector>
using namespace nitro::options;
static int bad = 0;
#define DEV(name, cond) do { if (cond) { std::printf("DEVIATION %s\n", name); bad = 1; } else std::printf("ok        %s\n", name); } while (0)
template <typename F> static int outcome(F f) { try { f(); return 0; } catch (parsing_error&) { return 1; } catch (parser_error&) { return 2; } catch (std::exception&) { return 3; } }
static arguments run(parser& p, std::vector<const char*> a) { a.insert(a.begin(), "prog"); return p.parse((int)a.size(), a.data()); }
int main()
{
    { parser p; p.toggle("verbose").short_name("v"); int o = outcome([&] { run(p, { "-vz" }); });
      DEV("C01 -vz with undeclared letter z must be rejected, not silently accepted", o == 0); }
    { parser p; p.toggle("verbose").short_name("v"); p.option("out").short_name("o"); int given = -1; int o = outcome([&] { given = run(p, { "-vo", "file" }).given("verbose"); });
      DEV("C01 -vo file: option letter hidden in a bundle must be rejected (v is silently dropped)", o == 0 && given == 0); }
    { parser p; p.option("o"); std::string got; int o = outcome([&] { got = run(p, { "--o=a\nb" }).get("o"); });
      DEV("C02/C04 --o=a<newline>b must be accepted with the value byte for byte", !(o == 0 && got == "a\nb")); }
    { parser p; p.option("opt").env("NITRO_DEFECT_ENV"); setenv("NITRO_DEFECT_ENV", "--a=b", 1); std::string got; int o = outcome([&] { got = run(p, {}).get("opt"); });
      DEV("C03 environment value --a=b is delivered verbatim", !(o == 0 && got == "--a=b")); }
    { parser p; p.option("opt").env("NITRO_DEFECT_ENV"); setenv("NITRO_DEFECT_ENV", "-5", 1); std::string got; int o = outcome([&] { got = run(p, {}).get("opt"); });
      DEV("C03/C04 environment value -5 is delivered verbatim (not a developer-error exception)", !(o == 0 && got == "-5")); }
    { parser p; p.multi_option("m").env("NITRO_DEFECT_ENV"); setenv("NITRO_DEFECT_ENV", "x=1;-y", 1); std::vector<std::string> got; int o = outcome([&] { got = run(p, {}).get_all("m"); });
      DEV("C03 multi-option environment value x=1;-y is split at ; and delivered verbatim", !(o == 0 && got.size() == 2 && got[0] == "x=1" && got[1] == "-y")); }
    unsetenv("NITRO_DEFECT_ENV");
    { parser p; p.toggle("no-color"); int given = -1; int o = outcome([&] { given = run(p, { "--no-color" }).given("no-color"); });
      DEV("C11 a toggle whose own name starts with no- can be given (known finding toggle_named_no)", !(o == 0 && given == 1)); }
    { parser p; p.accept_positionals(3); std::vector<std::string> pos; int o = outcome([&] { pos = run(p, { "--", "-" }).positionals(); });
      DEV("C12 a lone - after -- is a positional (known finding malformed_dash_in_positional_part)", !(o == 0 && pos.size() == 1 && pos[0] == "-")); }
    { parser p; p.option("o").default_value("d"); p.toggle("t"); p.multi_option("m").optional(); p.accept_positionals(2);
      int o1 = outcome([&] { run(p, { "--o", "1", "--t", "--m", "a", "p" }); }); std::string v; int t = -1; size_t m = 99, np = 99; bool prov = true;
      int o2 = outcome([&] { auto r = run(p, {}); v = r.get("o"); t = r.given("t"); m = r.count("m"); np = r.positionals().size(); prov = r.provided("o"); });
      DEV("C14 a second parse gives what a fresh parser gives (values, counts, lists, provided flags do not carry over)", !(o1 == 0 && o2 == 0 && v == "d" && t == 0 && m == 0 && np == 0 && !prov)); }
    { parser p("app", "about"); p.option("opt", "some description"); std::stringstream fresh, used; used << std::string(40, 'x') << "\n" << "prefix ";
      p.usage(fresh); p.usage(used); std::string u = used.str().substr(48);
      DEV("C15 usage text does not depend on what the stream already contains", u != fresh.str()); }
    { parser p; p.option("x"); parser q(std::move(p)); int o = outcome([&] { q.toggle("x"); });
      DEV("C13 after a move the parser still rejects a second meaning for a declared name (known finding parser_move_stale_backref)", o != 2); }
    return bad;
}
