// Demonstrates, against the real header, the fixed_vector deviations from C06/C07 that were
// repaired by "fix:" commits in /repo.  Each case prints DEVIATION when the defect is present.
// g++ -std=c++17 -I<tree>/include fixed_vector_defects.cpp -o fvd && ./fvd   (exit 1 = some deviation)
#include <memory>
#include <iterator>
#include <nitro/lang/fixed_vector.hpp>
#include <cstdio>
#include <type_traits>
using fv = nitro::lang::fixed_vector<long>;
static int bad = 0;
#define DEV(name, cond) do { if (cond) { std::printf("DEVIATION %s\n", name); bad = 1; } else std::printf("ok        %s\n", name); } while (0)
template <typename V, typename = void> struct has_insert_cref : std::false_type {};
template <typename V> struct has_insert_cref<V, std::void_t<decltype(std::declval<V&>().insert(std::declval<const long&>()))>> : std::true_type {};
int main()
{
    { fv v(4); v.push_back(1); bool threw = false; try { v.at(1); } catch (...) { threw = true; } DEV("C06 at(size()) must raise", !threw); }
    { const fv v = [] { fv t(4); t.push_back(1); return t; }(); }
    { fv a(4); a.push_back(1); a.push_back(2); fv b(std::move(a)); DEV("C07 move ctor transfers the sequence", b.size() != 2); DEV("C06 moved-from source is well formed (size<=capacity, no null storage with size>0)", a.size() != 0 && a.data() == nullptr); }
    { fv a(4); a.push_back(1); a.push_back(2); fv b(2); b = a; DEV("C07 copy assignment yields an equal container", !(b.size() == 2 && b.capacity() == 4 && b[0] == 1 && b[1] == 2)); }
    { fv a(4); a.push_back(1); a.push_back(2); fv b(2); b = std::move(a); DEV("C07 move assignment transfers the sequence", !(b.size() == 2 && b[0] == 1 && b[1] == 2)); }
    { fv b(2); b = { 7, 8, 9 }; DEV("C07 list assignment replaces the contents", !(b.size() == 3 && b[0] == 7 && b[2] == 9)); }
    { fv a(4); a.push_back(1); a.push_back(2); a.emplace(a.begin(), 9L); DEV("C07 positional emplace inserts before pos", !(a.size() == 3 && a[0] == 9 && a[1] == 1 && a[2] == 2)); }
    { fv a(4); a.push_back(1); a.push_back(2); a.push_back(3); long s = 0, n = 0; auto it = a.rbegin(); auto e = a.rend(); long first = (it != e) ? *it : -1; for (; it != e && n < 10; ++it) { s = s * 10 + *it; ++n; } DEV("C07 rbegin..rend visits the live elements in reverse order", !(n == 3 && s == 321 && first == 3)); }
    DEV("C07 insert(const T&) is usable for an ordinary element type", !has_insert_cref<fv>::value);
    return bad;
}
