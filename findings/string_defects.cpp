// Deviations of nitro::lang string helpers from C17, against the real header.
// g++ -std=c++17 -I<tree>/include string_defects.cpp -o t && ./t        exit 1 = some deviation present
#include <nitro/lang/string.hpp>
#include <cstdio>
#include <csignal>
#include <unistd.h>
#include <sys/wait.h>
static int bad = 0;
#define DEV(name, cond) do { if (cond) { std::printf("DEVIATION %s\n", name); bad = 1; } else std::printf("ok        %s\n", name); } while (0)
int main()
{
    {   // replace_all must return for every input: empty pattern
        pid_t p = fork();
        if (p == 0) { alarm(2); std::string s = "abc"; try { nitro::lang::replace_all(s, "", "x"); } catch (...) {} _exit(0); }
        int st = 0; waitpid(p, &st, 0);
        DEV("C17 replace_all(s, \"\", \"x\") returns (fixed by a fix: commit)", WIFSIGNALED(st));
    }
    DEV("C17 join({\"a\",\"\"}, \",\") has no trailing infix (known finding join_trailing_infix)", nitro::lang::join(std::vector<std::string>{ "a", "" }, ",") != "a");
    DEV("C17 join({\"a \",\"b \"}, \",\") does not alter an element (known finding join_trims_blank)", nitro::lang::join(std::vector<std::string>{ "a ", "b " }, ",") != "a ,b ");
    return bad;
}
