// KNOWN FINDING fv_moved_from_append (C06): a moved-from fixed_vector keeps capacity() > 0 on null
// storage, so push_back()/insert()/emplace_back()/emplace() store through a null pointer instead of raising.
// (tests/fixed_vector_test.cpp "fixed vector move" requires capacity()==10 after the move, so the
//  capacity cannot simply be zeroed.)   The store is done in a child process: it is a crash.
// g++ -std=c++17 -I/repo/include fv_moved_from_append.cpp -o t && ./t     exit 1 = finding present
#include <memory>
#include <iterator>
#include <nitro/lang/fixed_vector.hpp>
#include <cstdio>
#include <sys/wait.h>
#include <unistd.h>
int main()
{
    nitro::lang::fixed_vector<long> a(4);
    a.push_back(1);
    nitro::lang::fixed_vector<long> b(std::move(a));
    std::printf("moved-from: size=%zu capacity=%zu data=%p\n", a.size(), a.capacity(), (void*)a.data());
    pid_t p = fork();
    if (p == 0)
    {
        try { a.push_back(7); } catch (...) { _exit(0); }   // raising would be acceptable
        _exit(a.size() == 1 && a[0] == 7 ? 0 : 3);
    }
    int st = 0;
    waitpid(p, &st, 0);
    if (WIFSIGNALED(st)) { std::printf("DEVIATION push_back on the moved-from container died with signal %d\n", WTERMSIG(st)); return 1; }
    std::printf("ok (exit %d)\n", WEXITSTATUS(st));
    return WEXITSTATUS(st) ? 1 : 0;
}
