/* nitro_str.h — abstract std::string / std::vector<std::string> (DESIGN.md 4.1).
 * A string is a length plus ghost coordinates; content is never copied.  Every contract here is an
 * ASSUMPTION about libstdc++ (transcribed from the C++ standard), replaced at call sites, never enforced. */
#ifndef NITRO_STR_H
#define NITRO_STR_H
#include "nitro_rt.h"

#define NITRO_NPOS (~(size_t)0)
#define NSTR_MAXLEN (((size_t)1) << 40)      /* assumption: strings shorter than 2^40 bytes */

/* a string value: len bytes; when it is a substring of the string under study, off is its offset there
 * (NSTR_NOOFF for a string built from nothing, e.g. std::string()) */
#define NSTR_NOOFF (~(size_t)0 - 1)
struct nstr { size_t len; size_t off; nbool tail_blank; /* last byte is a blank (meaningful when len > 0) */ size_t pad_; /* sizeof == 32: pointer differences are shifts */ };

/* ---- the match predicate "needle occurs in haystack at position p" is uninterpreted; it is seen through one
 * arbitrary witness position g_mw (in the coordinates of the ORIGINAL haystack) with truth value g_match ---- */
extern size_t g_mw;
extern nbool g_match;
/* log of the find() calls of the function under study: number of calls, and the (start, result) of the
 * g_fc-th and (g_fc+1)-th call, in original coordinates */
extern size_t g_find_calls, g_fc, g_fstart, g_fret, g_fstart1, g_fret1;

/* well-formedness of the witness: a match lies inside the haystack; the empty needle matches everywhere */
#define NSTR_MATCH_WF(h, n) ((g_match ==> ((n)->len <= (h)->len && g_mw <= (h)->len - (n)->len)) && \
                             (((n)->len == 0 && g_mw <= (h)->len) ==> g_match))

/* std::string::find(needle, start): npos, or the least p >= start at which needle occurs */
size_t nstr_find(const struct nstr *h, const struct nstr *n, size_t start)
__CPROVER_requires(__CPROVER_r_ok(h, sizeof(*h)) && __CPROVER_r_ok(n, sizeof(*n)))
__CPROVER_assigns(g_find_calls, g_fstart, g_fret, g_fstart1, g_fret1)
__CPROVER_ensures(__CPROVER_return_value == NITRO_NPOS ||
                  (start <= __CPROVER_return_value && n->len <= h->len && __CPROVER_return_value <= h->len - n->len))
__CPROVER_ensures((__CPROVER_return_value != NITRO_NPOS && g_mw == __CPROVER_return_value) ==> g_match)
__CPROVER_ensures((start <= g_mw && g_mw < __CPROVER_return_value && n->len <= h->len && g_mw <= h->len - n->len) ==> !g_match)
__CPROVER_ensures(g_find_calls == __CPROVER_old(g_find_calls) + 1)
__CPROVER_ensures(__CPROVER_old(g_find_calls) == g_fc ==> (g_fstart == start && g_fret == __CPROVER_return_value))
__CPROVER_ensures(__CPROVER_old(g_find_calls) != g_fc ==> (g_fstart == __CPROVER_old(g_fstart) && g_fret == __CPROVER_old(g_fret)))
__CPROVER_ensures((__CPROVER_old(g_find_calls) == g_fc + 1 && g_fc != NITRO_NPOS) ==> (g_fstart1 == start && g_fret1 == __CPROVER_return_value))
__CPROVER_ensures(!(__CPROVER_old(g_find_calls) == g_fc + 1 && g_fc != NITRO_NPOS) ==> (g_fstart1 == __CPROVER_old(g_fstart1) && g_fret1 == __CPROVER_old(g_fret1)));

/* std::string::substr(pos, n): throws std::out_of_range iff pos > size(); length min(n, size()-pos) */
struct nstr nstr_substr(const struct nstr *h, size_t pos, size_t n)
__CPROVER_requires(__CPROVER_r_ok(h, sizeof(*h)))
__CPROVER_assigns(nitro_exc)
__CPROVER_ensures(__CPROVER_old(nitro_exc) != 0 ==> nitro_exc == __CPROVER_old(nitro_exc))
__CPROVER_ensures((__CPROVER_old(nitro_exc) == 0 && pos > h->len) ==> nitro_exc == EXC_STD)
__CPROVER_ensures((__CPROVER_old(nitro_exc) == 0 && pos <= h->len) ==> (nitro_exc == 0 &&
                  __CPROVER_return_value.len == (n < h->len - pos ? n : h->len - pos) &&
                  __CPROVER_return_value.off == (h->off == NSTR_NOOFF ? NSTR_NOOFF : h->off + pos)));

static inline struct nstr nstr_empty(void) { struct nstr s; s.len = 0; s.off = NSTR_NOOFF; s.tail_blank = 0; return s; }

/* ---- std::vector<std::string> seen through a ghost view: count and the element at witness index g_w ---- */
struct nvec { size_t count; struct nstr w; };
static inline void nvec_init(struct nvec *v) { v->count = 0; v->w.len = 0; v->w.off = NSTR_NOOFF; v->w.tail_blank = 0; }

void nvec_emplace_back(struct nvec *v, struct nstr piece)
__CPROVER_requires(__CPROVER_w_ok(v, sizeof(*v)))
__CPROVER_assigns(*v)
__CPROVER_ensures(__CPROVER_old(nitro_exc) != 0 ==> (v->count == __CPROVER_old(v->count) && v->w.len == __CPROVER_old(v->w.len) && v->w.off == __CPROVER_old(v->w.off)))
__CPROVER_ensures(__CPROVER_old(nitro_exc) == 0 ==> v->count == __CPROVER_old(v->count) + 1)
__CPROVER_ensures((__CPROVER_old(nitro_exc) == 0 && __CPROVER_old(v->count) == g_w) ==> (v->w.len == piece.len && v->w.off == piece.off))
__CPROVER_ensures((__CPROVER_old(nitro_exc) == 0 && __CPROVER_old(v->count) != g_w) ==> (v->w.len == __CPROVER_old(v->w.len) && v->w.off == __CPROVER_old(v->w.off)));

/* ---- a std::string that is edited in place (replace_all): the current text is a rewritten prefix of
 * `boundary` bytes followed by the untouched last `suffix` bytes of the original text (orig_len bytes).
 * current length = boundary + suffix; current position p >= boundary is original position orig_len - suffix + (p - boundary) ---- */
struct nstrm { size_t boundary; size_t suffix; size_t orig_len; size_t edits; };
#define NSTR_MAXSIZE (((size_t)1) << 62)     /* assumption: an edited string never outgrows 2^62 bytes (std::length_error not modelled) */
#define NSTRM_WF(s) ((s)->orig_len <= NSTR_MAXLEN && (s)->suffix <= (s)->orig_len && (s)->boundary <= NSTR_MAXSIZE)
#define NSTRM_LEN(s) ((s)->boundary + (s)->suffix)
#define NSTRM_OPOS(s) ((s)->orig_len - (s)->suffix)                       /* original offset where the untouched suffix begins */
#define NSTRM_ORIG(s, p) (NSTRM_OPOS(s) + ((p) - (s)->boundary))
#define NSTRM_OPOS_OLD(s) (__CPROVER_old((s)->orig_len) - __CPROVER_old((s)->suffix))
#define NSTRM_ORIG_OLD(s, p) (NSTRM_OPOS_OLD(s) + ((p) - __CPROVER_old((s)->boundary)))
extern size_t g_ec, g_eorig;     /* edit log: the original offset of the g_ec-th replace() */

/* find on the edited string.  Searching from inside the rewritten prefix would rescan replacement text:
 * start >= boundary is a PRECONDITION (checked at every call site). */
size_t nstrm_find(const struct nstrm *h, const struct nstr *n, size_t start)
__CPROVER_requires(__CPROVER_r_ok(h, sizeof(*h)) && __CPROVER_r_ok(n, sizeof(*n)))
__CPROVER_requires(start >= h->boundary)                 /*@ replacement_text_never_rescanned */
__CPROVER_assigns(g_find_calls, g_fstart, g_fret, g_fstart1, g_fret1)
__CPROVER_ensures(__CPROVER_return_value == NITRO_NPOS ||
                  (start <= __CPROVER_return_value && __CPROVER_return_value - h->boundary <= h->suffix && n->len <= h->suffix - (__CPROVER_return_value - h->boundary)))
__CPROVER_ensures((__CPROVER_return_value != NITRO_NPOS && g_mw == NSTRM_ORIG(h, __CPROVER_return_value)) ==> g_match)
__CPROVER_ensures((start - h->boundary <= h->suffix && NSTRM_ORIG(h, start) <= g_mw && (__CPROVER_return_value == NITRO_NPOS || g_mw < NSTRM_ORIG(h, __CPROVER_return_value)) &&
                   n->len <= h->orig_len && g_mw <= h->orig_len - n->len) ==> !g_match)
__CPROVER_ensures(g_find_calls == __CPROVER_old(g_find_calls) + 1)
__CPROVER_ensures(__CPROVER_old(g_find_calls) == g_fc ==> (g_fstart == NSTRM_ORIG(h, start) && g_fret == (__CPROVER_return_value == NITRO_NPOS ? NITRO_NPOS : NSTRM_ORIG(h, __CPROVER_return_value))))
__CPROVER_ensures(__CPROVER_old(g_find_calls) != g_fc ==> (g_fstart == __CPROVER_old(g_fstart) && g_fret == __CPROVER_old(g_fret)))
__CPROVER_ensures((__CPROVER_old(g_find_calls) == g_fc + 1 && g_fc != NITRO_NPOS) ==> (g_fstart1 == NSTRM_ORIG(h, start) && g_fret1 == (__CPROVER_return_value == NITRO_NPOS ? NITRO_NPOS : NSTRM_ORIG(h, __CPROVER_return_value))))
__CPROVER_ensures(!(__CPROVER_old(g_find_calls) == g_fc + 1 && g_fc != NITRO_NPOS) ==> (g_fstart1 == __CPROVER_old(g_fstart1) && g_fret1 == __CPROVER_old(g_fret1)));

/* std::string::replace(pos, n, repl): throws out_of_range iff pos > size(); replaces min(n, size()-pos) bytes */
#define NSTRM_CUT_OLD(s, pos, n) ((n) < __CPROVER_old((s)->suffix) - ((pos) - __CPROVER_old((s)->boundary)) ? (n) : __CPROVER_old((s)->suffix) - ((pos) - __CPROVER_old((s)->boundary)))
void nstrm_replace(struct nstrm *s, size_t pos, size_t n, const struct nstr *repl)
__CPROVER_requires(__CPROVER_w_ok(s, sizeof(*s)) && __CPROVER_r_ok(repl, sizeof(*repl)) && nitro_exc == 0)
__CPROVER_requires(pos >= s->boundary)                   /*@ edits_only_in_untouched_suffix */
__CPROVER_assigns(*s, nitro_exc, g_eorig)
__CPROVER_ensures(pos - __CPROVER_old(s->boundary) > __CPROVER_old(s->suffix) ==> nitro_exc == EXC_STD)
__CPROVER_ensures(pos - __CPROVER_old(s->boundary) <= __CPROVER_old(s->suffix) ==> (nitro_exc == 0 &&
      s->boundary == pos + repl->len &&
      s->suffix == __CPROVER_old(s->suffix) - (pos - __CPROVER_old(s->boundary)) - NSTRM_CUT_OLD(s, pos, n) &&
      s->orig_len == __CPROVER_old(s->orig_len) && s->edits == __CPROVER_old(s->edits) + 1 &&
      s->boundary <= NSTR_MAXSIZE /* ASSUMPTION: the result fits */))
__CPROVER_ensures((pos - __CPROVER_old(s->boundary) <= __CPROVER_old(s->suffix) && __CPROVER_old(s->edits) == g_ec) ==> g_eorig == NSTRM_ORIG_OLD(s, pos))
__CPROVER_ensures(!(pos - __CPROVER_old(s->boundary) <= __CPROVER_old(s->suffix) && __CPROVER_old(s->edits) == g_ec) ==> g_eorig == __CPROVER_old(g_eorig));


/* ---- std::stringstream used as an accumulator (join): one stream at a time, seen through global ghosts:
 * bytes written, kind of the last NON-EMPTY piece (element text or infix), whether the last byte is a blank ---- */
struct nos { size_t len; };
enum { OS_NONE = 0, OS_ELEM = 1, OS_INFIX = 2 };
extern size_t g_os_len; extern int g_os_last; extern nbool g_os_tail_blank;
static inline void nos_init(struct nos *s) { s->len = 0; g_os_len = 0; g_os_last = OS_NONE; g_os_tail_blank = 0; }
static inline size_t nos_tellp(const struct nos *s) { return s->len; }   /* tellp() of a good stringstream: bytes written */
/* s << element */
void nos_put_elem(struct nos *s, const struct nstr *e)
__CPROVER_requires(__CPROVER_w_ok(s, sizeof(*s)) && __CPROVER_r_ok(e, sizeof(*e)) && s->len == g_os_len)
__CPROVER_assigns(*s, g_os_len, g_os_last, g_os_tail_blank)
__CPROVER_ensures(s->len == __CPROVER_old(s->len) + e->len && g_os_len == s->len && s->len <= NSTR_MAXSIZE && s->len >= __CPROVER_old(s->len) /* ASSUMPTION: fits, no wrap-around */)
__CPROVER_ensures(e->len > 0 ==> (g_os_last == OS_ELEM && g_os_tail_blank == e->tail_blank))
__CPROVER_ensures(e->len == 0 ==> (g_os_last == __CPROVER_old(g_os_last) && g_os_tail_blank == __CPROVER_old(g_os_tail_blank)));
/* s << infix.  C17: no leading and no doubled infix are PRECONDITIONS, checked at every call site */
void nos_put_infix(struct nos *s, const struct nstr *infix)
__CPROVER_requires(__CPROVER_w_ok(s, sizeof(*s)) && __CPROVER_r_ok(infix, sizeof(*infix)) && s->len == g_os_len)
__CPROVER_requires(infix->len > 0 ==> g_os_len > 0)                      /*@ no_leading_infix */
__CPROVER_requires(infix->len > 0 ==> g_os_last != OS_INFIX)             /*@ no_doubled_infix */
__CPROVER_assigns(*s, g_os_len, g_os_last, g_os_tail_blank)
__CPROVER_ensures(s->len == __CPROVER_old(s->len) + infix->len && g_os_len == s->len && s->len <= NSTR_MAXSIZE && s->len >= __CPROVER_old(s->len) /* ASSUMPTION: fits, no wrap-around */)
__CPROVER_ensures(infix->len > 0 ==> (g_os_last == OS_INFIX && g_os_tail_blank == infix->tail_blank))
__CPROVER_ensures(infix->len == 0 ==> (g_os_last == __CPROVER_old(g_os_last) && g_os_tail_blank == __CPROVER_old(g_os_tail_blank)));
static inline struct nstr nos_str(const struct nos *s) { struct nstr r; r.len = s->len; r.off = NSTR_NOOFF; r.tail_blank = g_os_tail_blank; return r; }

#define NITRO_STR_GLOBALS size_t g_os_len; int g_os_last; nbool g_os_tail_blank; size_t g_mw; nbool g_match; size_t g_find_calls, g_fc, g_fstart, g_fret, g_fstart1, g_fret1, g_ec, g_eorig;
nbool nondet_nbool(void);
int nondet_int(void);
#define NITRO_STR_HAVOC g_os_len = nondet_size_t(); g_os_last = nondet_int(); g_os_tail_blank = nondet_nbool(); g_mw = nondet_size_t(); g_match = nondet_nbool(); g_find_calls = nondet_size_t(); g_fc = nondet_size_t(); \
    g_fstart = nondet_size_t(); g_fret = nondet_size_t(); g_fstart1 = nondet_size_t(); g_fret1 = nondet_size_t(); g_ec = nondet_size_t(); g_eorig = nondet_size_t();
#endif
