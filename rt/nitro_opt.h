/* nitro_opt.h — abstraction of std::string for the option parser units (DESIGN.md 4.1, token view).
 * A string is an interned identity (equal text <=> equal id), its length, its first three bytes, the position of
 * its first '=' and the identities of the substrings the parser takes from it.  The substring identities are
 * uninterpreted (ghost coordinates): taking a substring never copies bytes, it selects the matching identity.
 * All contracts here are ASSUMPTIONS about libstdc++ / <regex>, transcribed from the C++ standard. */
#ifndef NITRO_OPT_H
#define NITRO_OPT_H
#include "nitro_rt.h"
#define NITRO_NPOS (~(size_t)0)
#define OSTR_MAXLEN (((size_t)1) << 40)

#ifndef NITRO_NL
#define NITRO_NL 4     /* number of distinct short names the letter table can hold (bound on declarations, like K) */
#endif
/* letters of interest: the (at most NITRO_NL) distinct declared short names, arbitrary but fixed and pairwise distinct.
 * A short token is seen through how often each of them occurs among its letters, and how many other letters it has. */
extern unsigned char g_letters[NITRO_NL];
#define LETTERS_WF (g_letters[0] != g_letters[1] && g_letters[0] != g_letters[2] && g_letters[0] != g_letters[3] && g_letters[1] != g_letters[2] && g_letters[1] != g_letters[3] && g_letters[2] != g_letters[3])
#define LETTER_SLOT(c) ((c) == g_letters[0] ? 0 : (c) == g_letters[1] ? 1 : (c) == g_letters[2] ? 2 : (c) == g_letters[3] ? 3 : NITRO_NL)
struct ostr
{
    size_t id;            /* identity of the text (interned) */
    size_t len;
    unsigned char b0, b1, b2;   /* bytes 0..2 (meaningful below len) */
    size_t eq;            /* position of the first '=' or NITRO_NPOS */
    nbool nl_after_eq;    /* a line terminator occurs after the first '=' */
    /* identities of substrings: the part before the first '=' (the whole text if there is none), its suffixes from
     * byte 2 and from byte 5, and the part after the first '=' */
    size_t name_id, name_sub2_id, name_sub5_id, value_id;
    nbool name_has_no;    /* the name part starts with "--no-" */
    size_t lcount[NITRO_NL]; /* how many of the bytes 1..namelen-1 equal letter j of the table (letters of a short token) */
    size_t lother;        /* ... and how many are none of them */
    /* no padding */
};
/* well-formedness of the ghost coordinates (facts every real string satisfies).  Evaluated on a COPY of the struct:
 * field accesses on a local need no pointer checks, which keeps symbolic execution of the contracts fast. */
#define OSTR_NAMELEN(s) ((s)->eq == NITRO_NPOS ? (s)->len : (s)->eq)
#define OSTR_NAMELEN_V(v) ((v).eq == NITRO_NPOS ? (v).len : (v).eq)
enum { OSTR_ID_EMPTY = 1, OSTR_ID_DD = 2 /* "--" */, OSTR_ID_LIT_BASE = 16 };
static inline nbool ostr_wf_v(struct ostr v)
{
    size_t nl = OSTR_NAMELEN_V(v);
    return v.len <= OSTR_MAXLEN && (v.eq == NITRO_NPOS || v.eq < v.len) &&
        ((v.eq == 0) == (v.len > 0 && v.b0 == '=')) && (v.eq != 1 || (v.b1 == '=' && v.b0 != '=')) && (v.eq != 2 || (v.b2 == '=' && v.b0 != '=' && v.b1 != '=')) &&
        (!(v.eq > 0 && v.len > 0) || v.b0 != '=') && (!(v.eq > 1 && v.len > 1) || v.b1 != '=') && (!(v.eq > 2 && v.len > 2) || v.b2 != '=') &&
        (!v.name_has_no || (nl >= 5 && v.b0 == '-' && v.b1 == '-' && v.b2 == 'n')) &&
        (v.eq != NITRO_NPOS || (v.name_id == v.id && !v.nl_after_eq)) &&
        (nl < 1 ? (v.lcount[0] == 0 && v.lcount[1] == 0 && v.lcount[2] == 0 && v.lcount[3] == 0 && v.lother == 0)
                : (v.lcount[0] <= nl && v.lcount[1] <= nl && v.lcount[2] <= nl && v.lcount[3] <= nl && v.lother <= nl && v.lcount[0] + v.lcount[1] + v.lcount[2] + v.lcount[3] + v.lother == nl - 1)) &&
        (nl != 2 || (v.lcount[0] == (v.b1 == g_letters[0] ? 1 : 0) && v.lcount[1] == (v.b1 == g_letters[1] ? 1 : 0) && v.lcount[2] == (v.b1 == g_letters[2] ? 1 : 0) && v.lcount[3] == (v.b1 == g_letters[3] ? 1 : 0))) &&
        ((v.id == OSTR_ID_DD) == (v.len == 2 && v.b0 == '-' && v.b1 == '-')) && ((v.id == OSTR_ID_EMPTY) == (v.len == 0));
}
#define OSTR_WF(s) ostr_wf_v(*(s))
/* byte i (i in 0..2) of a string as std::string::operator[] yields it: '\0' at size() */
#define OSTR_AT0(s) ((s).len > 0 ? (s).b0 : (unsigned char)0)
#define OSTR_AT1(s) ((s).len > 1 ? (s).b1 : (unsigned char)0)
#define OSTR_AT2(s) ((s).len > 2 ? (s).b2 : (unsigned char)0)

#define OSTR_SAME_LETTERS(x, y) ((x).lcount[0] == (y).lcount[0] && (x).lcount[1] == (y).lcount[1] && (x).lcount[2] == (y).lcount[2] && (x).lcount[3] == (y).lcount[3] && (x).lother == (y).lother)
/* arg_.find("=") */
static inline size_t ostr_find_eq(const struct ostr *s) { return s->eq; }
/* arg_.substr(0, sep): the name part;  arg_.substr(sep + 1): the value part (sep is the position of the first '=') */
struct ostr ostr_name_part(const struct ostr *s, size_t sep)
__CPROVER_requires(__CPROVER_r_ok(s, sizeof(*s)) && sep == s->eq && sep != NITRO_NPOS)
__CPROVER_assigns()
__CPROVER_ensures(__CPROVER_return_value.id == s->name_id && __CPROVER_return_value.len == sep && __CPROVER_return_value.eq == NITRO_NPOS &&
                  __CPROVER_return_value.b0 == s->b0 && __CPROVER_return_value.b1 == s->b1 && __CPROVER_return_value.b2 == s->b2 &&
                  __CPROVER_return_value.name_id == s->name_id && __CPROVER_return_value.name_sub2_id == s->name_sub2_id && __CPROVER_return_value.name_sub5_id == s->name_sub5_id &&
                  __CPROVER_return_value.name_has_no == s->name_has_no && !__CPROVER_return_value.nl_after_eq && OSTR_SAME_LETTERS(__CPROVER_return_value, *s) &&
                  ((__CPROVER_return_value.id == OSTR_ID_DD) == (sep == 2 && s->b0 == '-' && s->b1 == '-')) && ((__CPROVER_return_value.id == OSTR_ID_EMPTY) == (sep == 0)));
struct ostr ostr_value_part(const struct ostr *s, size_t from)
__CPROVER_requires(__CPROVER_r_ok(s, sizeof(*s)) && s->eq != NITRO_NPOS && from == s->eq + 1)
__CPROVER_assigns()
__CPROVER_ensures(__CPROVER_return_value.id == s->value_id && __CPROVER_return_value.len == s->len - from && OSTR_WF(&__CPROVER_return_value));
/* name().substr(5) and std::string(name_.begin() + 2, name_.end()) */
struct ostr ostr_suffix(const struct ostr *s, size_t from)
__CPROVER_requires(__CPROVER_r_ok(s, sizeof(*s)) && (from == 2 || from == 5) && from <= s->len && s->eq == NITRO_NPOS)
__CPROVER_assigns()
__CPROVER_ensures(__CPROVER_return_value.id == (from == 2 ? s->name_sub2_id : s->name_sub5_id) && __CPROVER_return_value.len == s->len - from && OSTR_WF(&__CPROVER_return_value));
/* nitro::lang::starts_with(name_, "--no-")  (the prefix relation: verified in the string unit, C17) */
static inline nbool ostr_starts_with_no(const struct ostr *s) { return s->name_has_no; }
/* std::regex_match(arg, std::regex("-{1,2}[^-=]+[^=]*=?[\s\S]*")): one or two dashes, then a byte that is neither '-' nor '=' */
#define OSTR_TOKEN_SHAPE(s) ((s)->len >= 2 && (s)->b0 == '-' && (((s)->b1 != '-' && (s)->b1 != '=') || ((s)->b1 == '-' && (s)->len >= 3 && (s)->b2 != '-' && (s)->b2 != '=')))
nbool ostr_regex_token(const struct ostr *s, int dot_excludes_newline)
__CPROVER_requires(__CPROVER_r_ok(s, sizeof(*s)))
__CPROVER_assigns()
__CPROVER_ensures(__CPROVER_return_value == (OSTR_TOKEN_SHAPE(s) && !(dot_excludes_newline && s->nl_after_eq)));

/* ---- std::multiset<std::string> of one-character strings: total, count per table letter, count of other letters ---- */
struct omset { size_t total; size_t cnt[NITRO_NL]; size_t other; };
/* arg_[i] for i >= 1 while the short list is built: each call yields the next byte of the token; the stub counts what it
 * yielded and which position it expects next.  After the last letter the counts are, by definition, the token's lcount/lother. */
extern size_t g_at_next, g_at_hits[NITRO_NL], g_at_other;
#define AT_BUMP(j, c) (g_at_hits[j] == __CPROVER_old(g_at_hits[j]) + ((c) == g_letters[j] ? 1 : 0))
unsigned char ostr_at(const struct ostr *s, size_t i)
__CPROVER_requires(__CPROVER_r_ok(s, sizeof(*s)) && i < s->len && i >= 1)
__CPROVER_requires(i == g_at_next)                         /*@ every_position_is_read_once_in_order */
__CPROVER_assigns(g_at_next, g_at_hits, g_at_other)
__CPROVER_ensures(g_at_next == i + 1 && AT_BUMP(0, __CPROVER_return_value) && AT_BUMP(1, __CPROVER_return_value) && AT_BUMP(2, __CPROVER_return_value) && AT_BUMP(3, __CPROVER_return_value) &&
                  g_at_other == __CPROVER_old(g_at_other) + (LETTER_SLOT(__CPROVER_return_value) == NITRO_NL ? 1 : 0))
__CPROVER_ensures((i + 1 == OSTR_NAMELEN(s) && __CPROVER_old(g_at_hits[0]) + __CPROVER_old(g_at_hits[1]) + __CPROVER_old(g_at_hits[2]) + __CPROVER_old(g_at_hits[3]) + __CPROVER_old(g_at_other) == i - 1) ==>
                  (g_at_hits[0] == s->lcount[0] && g_at_hits[1] == s->lcount[1] && g_at_hits[2] == s->lcount[2] && g_at_hits[3] == s->lcount[3] && g_at_other == s->lother))   /* definition of lcount/lother: the result of a full scan from position 1 */
__CPROVER_ensures(i == 1 ==> __CPROVER_return_value == s->b1)
__CPROVER_ensures(i == 2 ==> __CPROVER_return_value == s->b2);
static inline void omset_init(struct omset *m) { m->total = 0; m->cnt[0] = 0; m->cnt[1] = 0; m->cnt[2] = 0; m->cnt[3] = 0; m->other = 0; }
static inline void omset_emplace_char(struct omset *m, unsigned char c)     /* result.emplace(1, c) */
{ m->total++; if (c == g_letters[0]) m->cnt[0]++; else if (c == g_letters[1]) m->cnt[1]++; else if (c == g_letters[2]) m->cnt[2]++; else if (c == g_letters[3]) m->cnt[3]++; else m->other++; }
/* list.count(short_name()) for a one-character short name that is in the letter table */
static inline size_t omset_count(const struct omset *m, const struct ostr *key)
{ return key->len != 1 ? nondet_size_t() : key->b0 == g_letters[0] ? m->cnt[0] : key->b0 == g_letters[1] ? m->cnt[1] : key->b0 == g_letters[2] ? m->cnt[2] : key->b0 == g_letters[3] ? m->cnt[3] : nondet_size_t(); }
#define NITRO_OPT_GLOBALS unsigned char g_letters[NITRO_NL]; size_t g_at_next, g_at_hits[NITRO_NL], g_at_other;
unsigned char nondet_uchar(void);
#define NITRO_OPT_HAVOC g_letters[0] = nondet_uchar(); g_letters[1] = nondet_uchar(); g_letters[2] = nondet_uchar(); g_letters[3] = nondet_uchar(); g_at_next = nondet_size_t(); \
   g_at_hits[0] = nondet_size_t(); g_at_hits[1] = nondet_size_t(); g_at_hits[2] = nondet_size_t(); g_at_hits[3] = nondet_size_t(); g_at_other = nondet_size_t();
#endif
