/* nitro_fmt.h — abstractions for the format unit: values with a stream representation, text built by
 * streaming values, output as a piece log, std::sregex_iterator over the literal "\{\}".  Assumed contracts. */
#ifndef NITRO_FMT_H
#define NITRO_FMT_H
#include "nitro_rt.h"
#include "nitro_str.h"

struct nval { size_t id; };                 /* a value of any streamable type T; id names its stream representation */
struct ntext { size_t id; size_t pieces; }; /* a string obtained by streaming `pieces` values; id of the only one when pieces == 1 */

/* output text seen as a log of pieces; the witness entry index is g_ow */
enum { PK_NONE = 0, PK_SLICE = 1, PK_ARG = 2, PK_VAL = 3, PK_VAL_ALTERED = 4 /* a value streamed under non-default formatting state */ };
struct nout { size_t count; int w_kind; size_t w_a; size_t w_b; size_t last_a; /* first coordinate of the most recent piece */
              nbool default_fmt; /* the stream still has the formatting state of a newly constructed stream */ };
extern size_t g_ow;
static inline void nout_init(struct nout *o) { o->count = 0; o->w_kind = PK_NONE; o->w_a = 0; o->w_b = 0; o->last_a = 0; o->default_fmt = 1; }
/* a stream with static storage duration: whatever earlier uses left in it (text, flags) is still there */
static inline void nout_static_init(struct nout *o) { (void)o; }
/* s.str(std::string()): drops the text, keeps the formatting state */
static inline void nout_set_text_empty(struct nout *o) { o->count = 0; o->w_kind = PK_NONE; o->w_a = 0; o->w_b = 0; o->last_a = 0; }
#define NOUT_UNCHANGED(o) ((o)->w_kind == __CPROVER_old((o)->w_kind) && (o)->w_a == __CPROVER_old((o)->w_a) && (o)->w_b == __CPROVER_old((o)->w_b))
#define NOUT_APPEND_CONTRACT(kind, a, b) \
__CPROVER_requires(__CPROVER_w_ok(o, sizeof(*o))) \
__CPROVER_assigns(*o) \
__CPROVER_ensures(__CPROVER_old(nitro_exc) != 0 ==> (o->count == __CPROVER_old(o->count) && NOUT_UNCHANGED(o))) \
__CPROVER_ensures(__CPROVER_old(nitro_exc) == 0 ==> (o->count == __CPROVER_old(o->count) + 1 && o->last_a == (a))) \
__CPROVER_ensures((__CPROVER_old(nitro_exc) == 0 && __CPROVER_old(o->count) == g_ow) ==> (o->w_kind == (kind) && o->w_a == (a) && o->w_b == (b))) \
__CPROVER_ensures((__CPROVER_old(nitro_exc) == 0 && __CPROVER_old(o->count) != g_ow) ==> NOUT_UNCHANGED(o)) \
__CPROVER_ensures(o->default_fmt == __CPROVER_old(o->default_fmt))
/* result.append(first, last) with iterators into the format string: the bytes [from, to) of it, verbatim */
void nout_append_slice(struct nout *o, size_t from, size_t to)
__CPROVER_requires(from <= to)                         /*@ iterator_range_is_valid */
NOUT_APPEND_CONTRACT(PK_SLICE, from, to);
/* result.append(it->begin(), it->end()): the whole text of argument number arg, verbatim */
void nout_append_arg(struct nout *o, size_t arg) NOUT_APPEND_CONTRACT(PK_ARG, arg, 0);
/* stream << value: its stream representation */
void nout_append_val(struct nout *o, const struct nval *v)
__CPROVER_requires(__CPROVER_r_ok(v, sizeof(*v)))
NOUT_APPEND_CONTRACT((__CPROVER_old(o->default_fmt) ? PK_VAL : PK_VAL_ALTERED), v->id, 0);
static inline struct ntext nout_text(const struct nout *o)
{
    struct ntext t; t.pieces = o->count; t.id = o->last_a; return t;
}

/* std::vector<string_type> args_: count and the element at witness index g_w */
struct nargs { size_t count; struct ntext w; };
void nargs_emplace_back(struct nargs *v, struct ntext t)
__CPROVER_requires(__CPROVER_w_ok(v, sizeof(*v)))
__CPROVER_assigns(*v)
__CPROVER_ensures(v->count == __CPROVER_old(v->count) + 1)
__CPROVER_ensures(__CPROVER_old(v->count) == g_w ==> (v->w.id == t.id && v->w.pieces == t.pieces))
__CPROVER_ensures(__CPROVER_old(v->count) != g_w ==> (v->w.id == __CPROVER_old(v->w.id) && v->w.pieces == __CPROVER_old(v->w.pieces)));

/* std::sregex_iterator over the literal \{\}: the matches are the left-to-right non-overlapping occurrences of the
 * two bytes "{}" in the format string (ASSUMPTION).  An iterator is the index of a match; g_rx_count matches exist;
 * position() is uninterpreted, seen at the witness indices g_rx_w and g_rx_w + 1; increasing by at least 2. */
extern size_t g_rx_count, g_rx_len, g_rx_w, g_rx_p0, g_rx_p1, g_rx_lastidx, g_rx_lastpos;
#define NRX_WF(fmtlen) (g_rx_len == (fmtlen) && g_rx_len <= NSTR_MAXLEN && g_rx_count <= g_rx_len / 2 && g_rx_lastidx == NITRO_NPOS && \
     (g_rx_w < g_rx_count ==> g_rx_p0 + 2 <= g_rx_len) && (g_rx_w + 1 < g_rx_count ==> (g_rx_p1 + 2 <= g_rx_len && (g_rx_w != NITRO_NPOS ==> g_rx_p0 + 2 <= g_rx_p1))))
static inline size_t nrx_begin(const struct nstr *fmt) { return 0; }
static inline size_t nrx_end(void) { return g_rx_count; }
size_t nrx_position(size_t idx)
__CPROVER_requires(idx < g_rx_count)                     /*@ dereferenced_iterator_is_not_the_end */
__CPROVER_assigns(g_rx_lastidx, g_rx_lastpos)
__CPROVER_ensures(__CPROVER_return_value <= g_rx_len - 2 && g_rx_len >= 2)
__CPROVER_ensures(idx == g_rx_w ==> __CPROVER_return_value == g_rx_p0)
__CPROVER_ensures((idx == g_rx_w + 1) ==> __CPROVER_return_value == g_rx_p1)
__CPROVER_ensures((__CPROVER_old(g_rx_lastidx) != NITRO_NPOS && idx == __CPROVER_old(g_rx_lastidx)) ==> __CPROVER_return_value == __CPROVER_old(g_rx_lastpos))
__CPROVER_ensures((__CPROVER_old(g_rx_lastidx) != NITRO_NPOS && idx == __CPROVER_old(g_rx_lastidx) + 1) ==> __CPROVER_return_value >= __CPROVER_old(g_rx_lastpos) + 2)
__CPROVER_ensures(g_rx_lastidx == idx && g_rx_lastpos == __CPROVER_return_value);
static inline size_t nrx_length(size_t idx) { return 2; }   /* the literal matches exactly the two bytes "{}" */

#define NITRO_FMT_GLOBALS size_t g_ow, g_rx_count, g_rx_len, g_rx_w, g_rx_p0, g_rx_p1, g_rx_lastidx, g_rx_lastpos;
#define NITRO_FMT_HAVOC g_ow = nondet_size_t(); g_rx_count = nondet_size_t(); g_rx_len = nondet_size_t(); g_rx_w = nondet_size_t(); \
   g_rx_p0 = nondet_size_t(); g_rx_p1 = nondet_size_t(); g_rx_lastidx = nondet_size_t(); g_rx_lastpos = nondet_size_t();
#endif
