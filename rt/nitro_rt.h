/* nitro_rt.h — abstraction library: C renderings of the C++ library types the
 * extracted nitro code depends on.  Every contract in this file that is *replaced*
 * at call sites and never enforced is an ASSUMPTION about libstdc++/libc
 * (listed under trusted_base in every evidence file). */
#ifndef NITRO_RT_H
#define NITRO_RT_H
#include <stddef.h>
#include <stdint.h>
#include <stdlib.h>

typedef _Bool nbool;
#define bool _Bool
#define true 1
#define false 0
#define nullptr 0

/* ---- exceptions (rule D4) ---- */
enum { EXC_NONE = 0, EXC_NITRO = 1, EXC_PARSER_ERROR = 2, EXC_PARSING_ERROR = 3, EXC_DL = 4,
       EXC_STD = 5, EXC_ELEM = 6, EXC_TERMINATE = 7 /* exception left a noexcept function: std::terminate */ };
extern int nitro_exc;
/* NITRO_CLEANUP: what C++ runs while the exception leaves the function (rule D5): empty except in
 * non-delegating constructors, where the already-constructed members are destroyed */
#define NITRO_THROW(e) do { nitro_exc = NITRO_EXC_MAP(e); NITRO_CLEANUP; return NITRO_DFLT; } while (0)
#define NITRO_PROPAGATE do { if (nitro_exc) { nitro_exc = NITRO_EXC_MAP(nitro_exc); NITRO_CLEANUP; return NITRO_DFLT; } } while (0)

/* ---- ghost witnesses (section 4.2) ---- */
extern size_t g_w;   /* arbitrary index: proving P(g_w) proves forall k. P(k) */
extern size_t g_n;   /* arbitrary length of an input range */
extern size_t g_in[16];   /* input recording slots (NITRO_REC): havocked by the harness, tied to pre-state values by the enforced contract */
size_t nondet_size_t(void);

/* ---- element type of containers (rule D1): opaque 64-bit value whose assignment may raise ---- */
typedef unsigned long long elem;
void elem_assign(elem *dst, elem src)
__CPROVER_requires(nitro_exc == 0)
__CPROVER_requires(__CPROVER_w_ok(dst, sizeof(elem)))
__CPROVER_assigns(*dst, nitro_exc)
__CPROVER_ensures(nitro_exc == 0 || nitro_exc == EXC_ELEM)
__CPROVER_ensures(nitro_exc == 0 ==> *dst == src);

#endif
