"""Unit description: which functions of /repo are put under contract and how their
C rendering is produced."""
import re
from .extract import (Rule, CallRule, Source, ExtractionError, apply_rules, annotate_loops,
                      indent, split_top, match_close)


class F:
    def __init__(self, name, rel, sig, c, props, nth=0, within=None, dflt="", ret_ref=False,
                 ctor=None, rules=(), pre=(), harness=None, enforce=True, rec=False,
                 body_override=None, note="", must_fire=(), extra_replace=(), no_replace=(),
                 defaulted=None, default_body=None, unwind=None):
        self.name, self.rel, self.sig, self.c, self.props = name, rel, sig, c, list(props)
        self.nth, self.within, self.dflt, self.ret_ref = nth, within, dflt, ret_ref
        self.ctor, self.rules, self.pre = ctor, list(rules), list(pre)
        self.harness, self.enforce, self.rec = harness, enforce, rec
        self.note, self.must_fire = note, list(must_fire)
        self.extra_replace, self.no_replace = list(extra_replace), list(no_replace)
        # a special member that the source may declare `= default`: then default_body (the synthesised memberwise
        # operation, rule D1/D3) is verified instead of an extracted body
        self.defaulted, self.default_body = defaulted, default_body
        # loops whose trip count is bounded by a declared array size are unwound completely (with unwinding assertions)
        self.unwind = unwind
        self.loops = []
        self.text = None
        self.line = None


class Lemma:
    """A hand-written harness over contracts only (all callees replaced by their
    contracts): the step from function contracts to the property statement."""

    def __init__(self, name, props, replace=(), note="", unwind=None):
        self.name, self.props, self.replace, self.note = name, list(props), list(replace), note
        self.unwind = unwind


class ScopeEnd:
    """Rule D5: `MARK(x);` followed somewhere by the end of its enclosing block gets `CLOSE(x);` inserted before that
    closing brace (lock_guard unlock, destructor of a local).  marker_re must capture the variable as group 1."""

    def __init__(self, name, marker_re, close_fmt):
        self.name, self.re, self.close_fmt = name, re.compile(marker_re), close_fmt

    def apply(self, text):
        n, pos = 0, 0
        while True:
            m = self.re.search(text, pos)
            if not m:
                return text, n
            n += 1
            depth, i = 0, m.end()
            while i < len(text):
                if text[i] == "{":
                    depth += 1
                elif text[i] == "}":
                    if depth == 0:
                        break
                    depth -= 1
                i += 1
            ins = "\n    " + self.close_fmt.replace("%s", m.group(1)) + "\n"
            text = text[:i] + ins + text[i:]
            pos = m.end()


class Unit:
    def __init__(self, name, src):
        self.name, self.src = name, src
        self.functions = []
        self.lemmas = []
        self.rules = []          # unit-wide rules applied after the function's own
        self.prelude = ""        # C text emitted before the functions (struct definitions)
        self.shared_decls = ""   # generated declarations visible to the harness/lemma file too (prelude_gen.h)
        self.extra_members = {}  # model struct -> C declarations of scalar data members found in the class but not in the model (members_gen.h)
        self.stubs = []          # names of nitro_rt functions with assumed contracts
        self.members = {}        # class key -> [(type, name, default)]
        self.member_init = {}    # class key -> callable(type, name, expr|None) -> C statement
        self.ctor_cleanup = {}   # class key -> C statement destroying the members when a constructor body raises
        self.trusted = []        # human-readable assumptions
        self.static_facts = []
        self.fired = {}

    def add(self, f):
        self.functions.append(f)
        return f

    def render_function(self, f):
        src = self.src
        fired = {}
        if f.defaulted and re.search(f.defaulted, src.text(f.rel)):
            m = re.search(f.defaulted, src.text(f.rel))
            d = {"header": " ".join(m.group(0).split()), "quals": [], "init": "", "body": f.default_body,
                 "line": src.text(f.rel)[:m.start()].count("\n") + 1}
            fired["D1.defaulted-member-synthesised"] = 1
            self.static_facts.append("%s is declared `%s` in %s: the synthesised memberwise operation is verified" % (f.name, d["header"], f.rel))
            f.line = d["line"]
            text = apply_rules(d["body"], [], fired)
            f.loops = []
            for k, v in fired.items():
                self.fired[k] = self.fired.get(k, 0) + v
            f.text = text
            f.is_noexcept = False
            return ("/* %s:%d  %s (synthesised) */\n#undef NITRO_DFLT\n#define NITRO_DFLT %s\n#undef NITRO_CLEANUP\n#define NITRO_CLEANUP\n"
                    "#undef NITRO_EXC_MAP\n#define NITRO_EXC_MAP(e) (e)\n%s\n{%s}\n") % (f.rel, f.line, d["header"], f.dflt, f.c, text)
        d = src.find(f.rel, f.sig, f.nth, f.within)
        f.line = d["line"]
        body = d["body"]
        pre = ""
        if f.ctor:
            pre = self.render_ctor_init(f, d["init"], fired)
        elif d["init"] and not getattr(f, "custom_init", False):
            raise ExtractionError("%s: unexpected mem-initialiser list" % f.name)
        text = pre + body
        text = apply_rules(text, f.pre, fired)
        text = apply_rules(text, f.rules, fired)
        text = apply_rules(text, self.rules, fired)
        text = apply_rules(text, getattr(f, "post", []), fired)
        if f.ret_ref:
            def ref_of(m):
                e = m.group(1).strip()
                t = re.match(r"^([^?:]+?)\s*\?\s*([^?:]+?)\s*:\s*([^?:]+)$", e)
                if t:   # a reference to the result of a conditional expression: the reference of the selected operand
                    return "return (%s) ? &(%s) : &(%s);" % (t.group(1), t.group(2).strip(), t.group(3).strip())
                return "return &(%s);" % e
            text, n = re.subn(r"\breturn\s+([^;]+);", ref_of, text)
            fired["D3.return-reference"] = fired.get("D3.return-reference", 0) + n
        # residue lint: a C++ reference parameter is a struct pointer here; used as a truth value it would test the POINTER, not
        # operator bool of the object - valid C, wrong meaning.  No rule may leave that behind.
        for pm in re.finditer(r"(?:const\s+)?struct\s+\w+\s*\*\s*(\w+)\s*(?:,|\)|$)", f.c):
            pn = re.escape(pm.group(1))
            if pm.group(1) in getattr(f, "nullable_params", ()):
                continue
            for pat in (r"!\s*%s\b(?!\s*(?:->|\[|\.))" % pn, r"\b(?:if|while)\s*\(\s*%s\s*\)" % pn, r"(?:&&|\|\|)\s*%s\b(?!\s*(?:->|\[|\.|==|!=|<|>|\+|-))" % pn,
                        r"(?<![\w>.*&])%s\s*(?:&&|\|\||\?)" % pn):
                mm = re.search(pat, text)
                if mm:
                    raise ExtractionError("%s: reference parameter `%s` is used as a truth value and no rule maps it to the object's operator bool: ...%s..." % (
                        f.name, pm.group(1), text[max(0, mm.start() - 30):mm.end() + 30].replace("\n", " ")))
        text, f.loops = annotate_loops(text, f.name)
        for mf in f.must_fire:
            if not any(fired.get(alt) for alt in mf.split("|")):
                raise ExtractionError("%s: rule %s was expected to fire (source shape changed)" % (f.name, mf))
        for k, v in fired.items():
            self.fired[k] = self.fired.get(k, 0) + v
        dflt = f.dflt
        cleanup = ""
        if f.ctor and not fired.get("ctor.delegating") and f.ctor in self.ctor_cleanup:
            cleanup = self.ctor_cleanup[f.ctor]
        if getattr(f, "cleanup", None):
            cleanup = f.cleanup
        # rule D2': an exception leaving a noexcept function calls std::terminate
        is_noexcept = "noexcept" in d["quals"] or re.search(r"\bnoexcept\b", d["header"]) is not None
        f.is_noexcept = is_noexcept
        excmap = "EXC_TERMINATE" if is_noexcept else "(e)"
        out = ("/* %s:%d  %s %s */\n#undef NITRO_DFLT\n#define NITRO_DFLT %s\n#undef NITRO_CLEANUP\n#define NITRO_CLEANUP %s\n"
               "#undef NITRO_EXC_MAP\n#define NITRO_EXC_MAP(e) %s\n%s\n{%s}\n") % (
            f.rel, f.line, " ".join(d["header"].split()), " ".join(d["quals"]), dflt, cleanup, excmap, f.c, text)
        f.text = text
        return out

    def render_ctor_init(self, f, init, fired):
        """C++ initialises members in declaration order: mem-initialiser if present,
        else default member initialiser, else default construction."""
        members = self.members[f.ctor]
        given = dict(init) if init else {}
        names = [m[1] for m in members]
        lines = []
        deleg = [k for k in given if k not in names]
        if deleg:
            # delegating constructor: the single item is a constructor call
            k = deleg[0]
            lines.append("    NITRO_DELEGATE_%s(%s);" % (re.sub(r"\W", "_", k), given[k]))
            fired["ctor.delegating"] = fired.get("ctor.delegating", 0) + 1
            return "\n".join(lines) + "\n"
        for ty, name, default in members:
            expr = given.get(name, default)
            lines.append(self.member_init[f.ctor](ty, name, expr))
            fired["ctor.member-init"] = fired.get("ctor.member-init", 0) + 1
        return "\n" + "\n".join("    " + l for l in lines) + "\n"

    def generate(self):
        parts = ['#include "nitro_rt.h"\n#include "members_gen.h"\n#include "contracts.h"\n#include "prelude_gen.h"\n', self.prelude]
        bodies = []
        for f in self.functions:
            bodies.append(self.render_function(f))
        loops = []
        for f in self.functions:
            for l in f.loops:
                loops.append("#ifndef %s\n#define %s\n#define %s_MISSING 1\n#endif\n" % (l, l, l))
        parts.append("".join(loops))
        parts.extend(bodies)
        return "\n".join(parts)
