"""Mechanical extraction of C++ function bodies from /repo into C text.

Nothing here knows about a particular line of nitro: functions are located by
a signature pattern + brace matching (must-find), and rewritten by ordered
tables of generic regex rules that fire wherever they match.  The result has to
compile as C (residue gate, enforced by the driver); whatever C++ survives the
rules is an error, never a silent fallback.
"""
import hashlib
import os
import re

REPO = os.environ.get("NITRO_REPO", "/repo")


class ExtractionError(Exception):
    pass


def strip_comments(s):
    """Remove // and /* */ comments, keep string literals and line structure."""
    out = []
    i, n = 0, len(s)
    while i < n:
        c = s[i]
        if c == '"' or c == "'":
            q = c
            j = i + 1
            while j < n and s[j] != q:
                if s[j] == "\\":
                    j += 1
                j += 1
            out.append(s[i:j + 1])
            i = j + 1
        elif s.startswith("//", i):
            j = s.find("\n", i)
            if j < 0:
                j = n
            i = j
        elif s.startswith("/*", i):
            j = s.find("*/", i + 2)
            if j < 0:
                j = n - 2
            out.append("\n" * s.count("\n", i, j + 2))
            i = j + 2
        else:
            out.append(c)
            i += 1
    return "".join(out)


def match_close(s, i, op="{", cl="}"):
    """s[i] == op; return index of the matching close, skipping literals."""
    assert s[i] == op, (s[i:i + 20], op)
    depth = 0
    n = len(s)
    while i < n:
        c = s[i]
        if c == '"' or c == "'":
            q = c
            i += 1
            while i < n and s[i] != q:
                if s[i] == "\\":
                    i += 1
                i += 1
        elif c == op:
            depth += 1
        elif c == cl:
            depth -= 1
            if depth == 0:
                return i
        i += 1
    raise ExtractionError("unbalanced %s%s" % (op, cl))


def split_top(s, sep=","):
    """split at top-level separators (outside (), [], {}, <> is NOT tracked)."""
    parts, depth, cur = [], 0, []
    i, n = 0, len(s)
    while i < n:
        c = s[i]
        if c in "([{":
            depth += 1
        elif c in ")]}":
            depth -= 1
        if c == '"' or c == "'":
            q = c
            j = i + 1
            while j < n and s[j] != q:
                if s[j] == "\\":
                    j += 1
                j += 1
            cur.append(s[i:j + 1])
            i = j + 1
            continue
        if c == sep and depth == 0:
            parts.append("".join(cur))
            cur = []
        else:
            cur.append(c)
        i += 1
    parts.append("".join(cur))
    return parts


def resolve_cxx_conditionals(text):
    """`#if __cplusplus >= 2017xxL ... [#else ...] #endif` is resolved for C++17 (the library's language level in this
    build): the guarded text is kept, the #else branch dropped; the directive lines become empty lines (line numbers stay).
    Other conditionals are left alone (and would fail the residue gate if they reached a function body)."""
    out, stack = [], []
    for line in text.split("\n"):
        st = line.strip()
        if re.match(r"#\s*if\s+__cplusplus\s*>=\s*2017\d\dL\s*$", st):
            stack.append(["cxx", True])
            out.append("")
        elif re.match(r"#\s*if", st):
            stack.append(["other", True])
            out.append(line)
        elif re.match(r"#\s*else\b", st) and stack and stack[-1][0] == "cxx":
            stack[-1][1] = False
            out.append("")
        elif re.match(r"#\s*endif\b", st) and stack:
            kind = stack.pop()[0]
            out.append("" if kind == "cxx" else line)
        else:
            keep = all(k != "cxx" or v for k, v in stack)
            out.append(line if keep else "")
    return "\n".join(out)


class Rule:
    """A generic rewrite rule.  pat is a regex; repl a template or callable.
    repeat: apply until fixpoint (for nested constructs)."""

    def __init__(self, name, pat, repl, flags=0, repeat=False):
        self.name, self.repl, self.repeat = name, repl, repeat
        self.re = re.compile(pat, flags)

    def apply(self, text):
        total = 0
        for _ in range(50):
            text, n = self.re.subn(self.repl, text)
            total += n
            if n == 0 or not self.repeat:
                break
        return text, total


class CallRule:
    """Rewrite `name(args)` with balanced parentheses: fn(list_of_args)->str.
    `pat` matches up to and including the opening parenthesis."""

    def __init__(self, name, pat, fn):
        self.name, self.fn = name, fn
        self.re = re.compile(pat)

    def apply(self, text):
        total = 0
        pos = 0
        for _ in range(1000):
            m = self.re.search(text, pos)
            if not m:
                break
            op = m.end() - 1
            cl = match_close(text, op, "(", ")")
            args = [a.strip() for a in split_top(text[op + 1:cl])]
            if args == [""]:
                args = []
            new = self.fn(m, args)
            if new is None:
                pos = m.end()
                continue
            text = text[:m.start()] + new + text[cl + 1:]
            pos = m.start() + 1
            total += 1
        return text, total


class Source:
    def __init__(self, repo=None):
        self.repo = repo or REPO
        self.cache = {}
        self.digests = {}
        self.fired = {}

    def text(self, rel):
        if rel not in self.cache:
            p = os.path.join(self.repo, rel)
            if not os.path.exists(p):
                raise ExtractionError("source file missing: " + rel)
            self.cache[rel] = resolve_cxx_conditionals(strip_comments(open(p, encoding="utf-8", errors="replace").read()))
        return self.cache[rel]

    def find(self, rel, sig, nth=0, within=None):
        """Locate a function definition.  sig: regex matching the declarator up
        to and including the closing parenthesis of the parameter list (and
        trailing cv/noexcept).  Returns dict(header, init, body).
        within=(start_regex) restricts the search to the brace block that
        follows the first match of start_regex (a class or namespace)."""
        t = self.text(rel)
        base = 0
        if within:
            m = re.search(within, t)
            if not m:
                raise ExtractionError("%s: scope %r not found" % (rel, within))
            ob = t.index("{", m.end())
            cb = match_close(t, ob)
            base, t = ob, t[ob:cb + 1]
        ms = list(re.finditer(sig, t))
        # only definitions: next non-space token after the match is '{' or ':'
        defs = []
        for m in ms:
            j = m.end()
            while True:
                while j < len(t) and t[j].isspace():
                    j += 1
                q = re.compile(r"(const|noexcept|override|final)\b").match(t, j)
                if not q:
                    break
                j = q.end()
            if j < len(t) and t[j] in "{:":
                defs.append((m, j))
        if len(defs) <= nth:
            raise ExtractionError("%s: function %r (occurrence %d) not found" % (rel, sig, nth))
        m, j = defs[nth]
        quals = t[m.end():j].split()
        init = ""
        if t[j] == ":":
            # mem-initialiser list up to the body's opening brace (brace-init not used in nitro ctor lists
            # except value_{...}; handle by scanning balanced parens/braces item by item)
            k = j + 1
            items = []
            while True:
                while t[k].isspace() or t[k] == ",":
                    k += 1
                if t[k] == "{":
                    break
                mm = re.compile(r"[A-Za-z_][\w:<>]*").match(t, k)
                if not mm:
                    raise ExtractionError("cannot parse mem-initialiser list near %r" % t[k:k + 40])
                name = mm.group(0)
                k = mm.end()
                while t[k].isspace():
                    k += 1
                if t[k] == "(":
                    e = match_close(t, k, "(", ")")
                elif t[k] == "{":
                    e = match_close(t, k, "{", "}")
                else:
                    raise ExtractionError("cannot parse mem-initialiser near %r" % t[k:k + 40])
                items.append((name, t[k + 1:e].strip()))
                k = e + 1
            init = items
            j = k
        end = match_close(t, j)
        body = t[j + 1:end]
        span = t[m.start():end + 1]
        key = "%s#%s#%d" % (rel, sig, nth)
        self.digests[key] = hashlib.sha256(span.encode()).hexdigest()[:16]
        return {"header": t[m.start():m.end()], "quals": quals, "init": init, "body": body, "span": span,
                "line": self.text(rel)[:base + m.start()].count("\n") + 1}

    def members(self, rel, class_re):
        """data members of a class with default member initialisers:
        returns list of (type, name, default or None) in declaration order."""
        t = self.text(rel)
        m = re.search(class_re, t)
        if not m:
            raise ExtractionError("%s: class %r not found" % (rel, class_re))
        ob = t.index("{", m.end())
        cb = match_close(t, ob)
        body = t[ob + 1:cb]
        # blank out nested brace blocks (function bodies, nested classes)
        flat = []
        i = 0
        while i < len(body):
            if body[i] == "{":
                e = match_close(body, i)
                # keep brace-initialisers `= {..};`/`name{...};` as they are short and followed by ';'
                k = e + 1
                while k < len(body) and body[k].isspace():
                    k += 1
                if k < len(body) and body[k] == ";" and "\n" not in body[i:e]:
                    flat.append(body[i:e + 1])
                else:
                    flat.append(";")
                i = e + 1
            else:
                flat.append(body[i])
                i += 1
        flat = "".join(flat)
        res = []
        for stmt in flat.split(";"):
            s = " ".join(stmt.split())
            s = re.sub(r"^(public|private|protected)\s*:\s*", "", s)
            if not s or "(" in s.split("=")[0] or "operator" in s or s.startswith(("using ", "friend ", "template", "typedef ", "static_assert")):
                continue
            mm = re.match(r"^(?:mutable\s+)?(.+?[\s&*>])([A-Za-z_]\w*)\s*(?:=\s*(.+)|\{(.*)\})?$", s)
            if mm:
                res.append((mm.group(1).strip(), mm.group(2), mm.group(3) if mm.group(3) is not None else mm.group(4)))
        return res


def apply_rules(text, rules, fired, ctx=""):
    for r in rules:
        text, n = r.apply(text)
        if n:
            fired[r.name] = fired.get(r.name, 0) + n
    return text


LOOP_RE = re.compile(r"\b(while|for)\s*\(")


def annotate_loops(body, fn):
    """insert NITRO_LOOP_<fn>_<n> after the header of the n-th loop (source order)."""
    out, pos, n = [], 0, 0
    names = []
    while True:
        m = LOOP_RE.search(body, pos)
        if not m:
            break
        op = m.end() - 1
        cl = match_close(body, op, "(", ")")
        # do { } while (...); -> the while is followed by ';' : not a loop header
        k = cl + 1
        while k < len(body) and body[k].isspace():
            k += 1
        if m.group(1) == "while" and k < len(body) and body[k] == ";":
            pos = cl + 1
            continue
        n += 1
        name = "NITRO_LOOP_%s_%d" % (fn, n)
        names.append(name)
        out.append(body[pos:cl + 1])
        out.append(" " + name + " ")
        pos = cl + 1
    out.append(body[pos:])
    return "".join(out), names


def indent(s, by="    "):
    return "\n".join(by + l if l.strip() else l for l in s.split("\n"))
