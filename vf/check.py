"""./check <property> --tier quick|thorough   — entry point of every registered check."""
import argparse
import hashlib
import importlib.util
import json
import os
import re
import shutil
import subprocess
import sys
import time

from . import driver
from .extract import Source, ExtractionError, REPO

VERIF = driver.VERIF
UNITS_OF = {
    "C06": ["fixed_vector"], "C07": ["fixed_vector"],
    "C17": ["string"],
    "C08": ["format"],
    "C18": ["owner"],
    "C19": ["envdl"],
    "C16": ["hash"],
    "C20": ["iter", "fixed_vector"],
    "C05": ["log"], "C10": ["log"], "C09": ["log"],
    "C04": ["options"], "C11": ["options"], "C14": ["options"], "C03": ["options"], "C01": ["options"], "C02": ["options"], "C12": ["options"], "C13": ["options"], "C15": ["options"],
}


AUTO_UNWIND = 6
LEVEL_OF = {"C09": "other"}   # sequential proof of the lock discipline; interleavings by assumption


def load_unit(name, src):
    p = os.path.join(VERIF, "units", name, "unit.py")
    spec = importlib.util.spec_from_file_location("unit_" + name, p)
    m = importlib.util.module_from_spec(spec)
    spec.loader.exec_module(m)
    return m.build(src)


def parse_c_sig(c):
    m = re.match(r"^(.*?)(\w+)\((.*)\)$", c.strip(), re.S)
    ret, name, params = m.group(1).strip(), m.group(2), m.group(3).strip()
    ps = []
    if params and params != "void":
        for p in params.split(","):
            p = p.strip()
            mm = re.match(r"^(.*?)(\w+)$", p, re.S)
            ps.append((mm.group(1).strip(), mm.group(2)))
    return ret, name, ps


def gen_harness(unit):
    out = ['#include "nitro_rt.h"\n#include "members_gen.h"\n#include "contracts.h"\n#include "prelude_gen.h"\n',
           "int nitro_exc;\nsize_t g_w, g_n;\nsize_t g_in[16];\n"
           "#ifdef NITRO_UNIT_GLOBALS\nNITRO_UNIT_GLOBALS\n#endif\n"
           "#ifndef NITRO_HAVOC_UNIT\n#define NITRO_HAVOC_UNIT\n#endif\n"
           "#define NITRO_HAVOC do { g_w = nondet_size_t(); g_n = nondet_size_t(); "
           "" + " ".join("g_in[%d] = nondet_size_t();" % i for i in range(16)) + " NITRO_HAVOC_UNIT } while (0)\n"
           '#define NITRO_CANARIES do { if (nitro_exc == 0) __CPROVER_assert(0, "CANARY returns normally"); '
           'else __CPROVER_assert(0, "CANARY raises"); } while (0)\n']
    for f in unit.functions:
        if f.harness:
            out.append(f.harness)
            continue
        ret, name, ps = parse_c_sig(f.c)
        lines = ["void h_%s(void)\n{" % name]
        for ty, pn in ps:
            lines.append("    %s %s;" % (ty, pn))
        lines.append("    NITRO_HAVOC;")
        call = "%s(%s)" % (name, ", ".join(pn for _, pn in ps))
        lines.append("    %s;" % call)
        lines.append("    NITRO_CANARIES;\n}\n")
        out.append("\n".join(lines))
    lem = os.path.join(VERIF, "units", unit.name, "lemmas.c")
    if os.path.exists(lem):
        out.append('#include "lemmas.c"\n')
    return "\n".join(out)


def contract_tags(path):
    """line -> tag from  /*@ tag */  comments in contracts.h"""
    tags = {}
    if os.path.exists(path):
        for i, l in enumerate(open(path), 1):
            m = re.search(r"/\*@\s*([\w.\-]+)\s*\*/", l)
            if m:
                tags[i] = m.group(1)
    return tags


def clause_tags(udir, incdirs, fnames):
    """(function, N) -> tag of the N-th ensures clause, from the preprocessed contracts (macro families expand
    to one source line, so line numbers cannot tell their clauses apart)"""
    from .extract import match_close
    cmd = ["gcc", "-E", "-CC", "-P", "-DNITRO_VERIF_CBMC"]
    for d in incdirs:
        cmd += ["-I", d]
    cmd += ["-x", "c", os.path.join(udir, "contracts.h")]
    try:
        txt = subprocess.run(cmd, stdout=subprocess.PIPE, stderr=subprocess.DEVNULL, text=True, timeout=60).stdout
    except Exception:
        return {}
    # drop ordinary comments (they may contain quotes and parentheses); keep the /*@ tag */ markers
    txt = re.sub(r"/\*(?!@).*?\*/", " ", txt, flags=re.S)
    res = {}
    for fn in fnames:
      try:
        for m in re.finditer(r"\b%s\s*\(" % re.escape(fn), txt):
              op = m.end() - 1
              try:
                  cl = match_close(txt, op, "(", ")")
              except Exception:
                  continue
              rest = txt[cl + 1:cl + 200000]
              if not re.match(r"\s*(/\*.*?\*/\s*)*__CPROVER_(requires|assigns|ensures|frees)", rest, re.S):
                  continue
              n = 0
              pos = 0
              while True:
                  mm = re.compile(r"\s*(?:/\*@\s*([\w.\-]+)\s*\*/|/\*.*?\*/)?\s*__CPROVER_(requires|assigns|ensures|frees)\s*\(", re.S).match(rest, pos)
                  if not mm:
                      break
                  o2 = mm.end() - 1
                  c2 = match_close(rest, o2, "(", ")")
                  kind = mm.group(2)
                  tagm = re.match(r"\s*;?\s*/\*@\s*([\w.\-]+)\s*\*/", rest[c2 + 1:c2 + 200])
                  if kind == "ensures":
                      n += 1
                      if tagm:
                          res[(fn, n)] = tagm.group(1)
                  pos = c2 + 1
                  if tagm:
                      pos = c2 + 1 + tagm.end()
              break
      except Exception:
        continue
    return res


def load_known():
    p = os.path.join(VERIF, "known_findings.json")
    if not os.path.exists(p):
        return {"findings": [], "fixed": []}
    return json.load(open(p))


def write_kf_header(path, known):
    lines = ["/* generated from known_findings.json on every run */",
             "#ifndef NITRO_KF_REGION\n#define NITRO_KF_REGION 0\n#endif"]
    for k in known.get("findings", []):
        lines.append("#define KF_%s 1" % k["name"])
    # every KF name used in contracts defaults to 0 (=not a known finding: fully enforced)
    names = set()
    for root, _, files in os.walk(os.path.join(VERIF, "units")):
        for fn in files:
            if fn.endswith((".h", ".c")):
                names.update(re.findall(r"\bKF_([a-z]\w*)\b", open(os.path.join(root, fn)).read()))
    for n in sorted(names):
        lines.append("#ifndef KF_%s\n#define KF_%s 0\n#endif" % (n, n))
    open(path, "w").write("\n".join(lines) + "\n")


def callees_of(text, names, self_name):
    found = []
    for n in names:
        if n != self_name and re.search(r"\b%s\s*\(" % re.escape(n), text):
            found.append(n)
    return found


def scan_assumptions(paths):
    res = []
    for p in paths:
        if not os.path.exists(p):
            continue
        for i, l in enumerate(open(p), 1):
            if "__CPROVER_assume" in l:
                res.append("%s:%d: %s" % (os.path.relpath(p, VERIF), i, l.strip()[:160]))
    return res


class Outcome:
    def __init__(self):
        self.violations = []   # (job, obligation names, replay path, reproduced)
        self.undecided = []
        self.known = []


def obligation_label(job, r, tags):
    tag = ""
    m = re.match(r"^(\w+)\.postcondition\.(\d+)$", r["name"])
    if m and (m.group(1), int(m.group(2))) in tags.get("clauses", {}):
        tag = "." + tags["clauses"][(m.group(1), int(m.group(2)))]
    elif r["file"].endswith("contracts.h") and r["line"] in tags and ".postcondition" not in r["name"]:
        tag = "." + tags[r["line"]]
    return r["name"] + tag


def main(argv=None):
    ap = argparse.ArgumentParser()
    ap.add_argument("prop")
    ap.add_argument("--tier", default=os.environ.get("VERIF_TIER", "quick"))
    ap.add_argument("--replay", default=None)
    ap.add_argument("--only", default=None, help="debug: run only jobs whose name matches this regex")
    ap.add_argument("--keep", action="store_true")
    ap.add_argument("-v", action="store_true")
    a = ap.parse_args(argv)
    if os.environ.get("VERIF_TIER") in ("quick", "thorough"):
        a.tier = os.environ["VERIF_TIER"]
    prop = a.prop
    seed = int(os.environ.get("VERIF_SEED", "0") or 0)
    t0 = time.time()
    if a.replay:
        from . import replay
        return replay.replay_file(a.replay)
    if prop not in UNITS_OF:
        print("UNDECIDED property=%s reason=no check registered" % prop)
        return 2
    bdir = os.path.join(VERIF, "build", "%s_%d" % (prop, os.getpid()))
    os.makedirs(bdir, exist_ok=True)
    try:
        return run_check(prop, a, bdir, seed, t0)
    finally:
        if not a.keep:
            shutil.rmtree(bdir, ignore_errors=True)
            try:
                os.rmdir(os.path.join(VERIF, "build"))
            except OSError:
                pass


def run_check(prop, a, bdir, seed, t0):
    from . import replay
    known = load_known()
    src = Source(REPO)
    jobs = []
    units = []
    loops = {}
    tags_by_unit = {}
    undecided = []
    for uname in UNITS_OF[prop]:
        try:
            unit = load_unit(uname, src)
            gen = unit.generate()
        except ExtractionError as e:
            print("UNDECIDED property=%s reason=extraction broke: %s" % (prop, e))
            write_evidence(prop, a.tier, seed, t0, [], [], None, undecided=[str(e)])
            return 2
        units.append(unit)
        ud = os.path.join(bdir, uname)
        os.makedirs(ud, exist_ok=True)
        gen_c = os.path.join(ud, uname + ".c")
        har_c = os.path.join(ud, uname + "_harness.c")
        open(gen_c, "w").write(gen)
        open(os.path.join(ud, "prelude_gen.h"), "w").write("/* generated from /repo on this run */\n" + unit.shared_decls)
        with open(os.path.join(ud, "members_gen.h"), "w") as fh:
            fh.write("/* scalar data members found in /repo's classes on this run that the model structs do not name */\n")
            for st, decls in sorted(getattr(unit, "extra_members", {}).items()):
                fh.write("#define NITRO_EXTRA_MEMBERS_%s %s\n" % (st, decls))
        open(har_c, "w").write(gen_harness(unit))
        write_kf_header(os.path.join(ud, "kf_gen.h"), known)
        # enforcement switches (input recording is active only in the function being enforced)
        with open(os.path.join(ud, "enf_gen.h"), "w") as fh:
            for f in unit.functions:
                fh.write("#ifndef NITRO_ENF_%s\n#define NITRO_ENF_%s 0\n#endif\n" % (f.name, f.name))
        udir = os.path.join(VERIF, "units", uname)
        tags_by_unit[uname] = contract_tags(os.path.join(udir, "contracts.h"))
        tags_by_unit[uname]["clauses"] = clause_tags(udir, [os.path.join(VERIF, "rt"), udir, ud], [f.name for f in unit.functions])
        contract_names = [f.name for f in unit.functions] + unit.stubs
        ctext = open(os.path.join(udir, "contracts.h")).read()
        kf_of = {}
        for k in known.get("findings", []):
            for fn in k.get("functions", []):
                kf_of.setdefault(fn, []).append(k)
        for f in unit.functions:
            if prop not in f.props or not f.enforce:
                continue
            missing = [l for l in f.loops if not re.search(r"#define\s+%s\b" % l, ctext)]
            auto_unwind = None
            if missing and not f.unwind:
                if len(missing) == len(f.loops):
                    # a function that has no loop contract at all (normally: no loop) now contains loops: they are unwound AUTO_UNWIND times with
                    # unwinding assertions.  Real obligations failing within that bound are a violation; only the bound failing is undecided.
                    auto_unwind = AUTO_UNWIND
                else:
                    undecided.append("unannotated loop %s in %s" % (missing[0], f.name))
                    continue
            loops[f.name] = f.loops
            rep = [c for c in callees_of(f.text, contract_names, f.name) if c not in f.no_replace] + f.extra_replace
            defs = ["NITRO_ENF_%s=1" % f.name]
            j = driver.Job(uname, f.name, "h_" + f.name, f.name, rep, [gen_c, har_c], defs, rec=f.rec, props=f.props, unwind=f.unwind or auto_unwind)
            j.auto_unwind = bool(auto_unwind)
            if f.unwind or auto_unwind:
                loops.pop(f.name, None)
            j.timeout = getattr(f, "timeout", None)
            j.unwind_fns = getattr(f, "unwind_fns", None)
            j.incdirs = [os.path.join(VERIF, "rt"), udir, ud]
            j.kf = kf_of.get(f.name, [])
            j.only_for = getattr(f, "only_for", {})
            cases = getattr(f, "cases", None)
            for alt in getattr(f, "alt_contracts", []):
                # a second contract of the same function (for particular call sites), enforced against the same body
                ja = driver.Job(uname, f.name + "~" + alt, "h_" + f.name, f.name, rep, [gen_c, har_c], defs, rec=f.rec, props=f.props, unwind=f.unwind)
                ja.contract = f.name + "_" + alt
                ja.timeout, ja.unwind_fns, ja.incdirs, ja.kf = j.timeout, j.unwind_fns, j.incdirs, []
                jobs.append(ja)
            if cases:
                # the input space of f is split by an exhaustive case distinction in its contract (NITRO_CASE_<f> selects the case);
                # every case is a separate job over the same text, f is proved when all of them are.  A case may name, per callee,
                # the (separately enforced) contract that its call sites satisfy in this case.
                for ci, case in enumerate(cases):
                    cname, alts = case[0], case[1]
                    if len(case) > 2 and prop not in case[2]:
                        continue    # this case of the distinction carries nothing of the property
                    rep_c = [r + "/" + r + "_" + alts[r] if r in alts else r for r in rep]
                    jc = driver.Job(uname, f.name + "+" + cname, "h_" + f.name, f.name, rep_c, [gen_c, har_c], defs + ["NITRO_CASE_%s=%d" % (f.name, ci)],
                                    rec=f.rec, props=f.props, unwind=f.unwind)
                    jc.timeout, jc.unwind_fns, jc.incdirs, jc.kf = j.timeout, j.unwind_fns, j.incdirs, j.kf
                    jc.only_for = j.only_for
                    jobs.append(jc)
            else:
                jobs.append(j)
            for k in j.kf:
                # region run: is the listed finding still present?  quick: one representative function per finding
                if prop not in k.get("properties", []) or not (a.tier == "thorough" or k.get("functions", [None])[0] == f.name):
                    continue
                j2 = driver.Job(uname, f.name + "@" + k["name"], "h_" + f.name, f.name, rep, [gen_c, har_c],
                                defs + ["NITRO_KF_REGION=1", "NITRO_KF_SEL_%s=1" % k["name"]], rec=f.rec, props=f.props, unwind=f.unwind)
                j2.incdirs = j.incdirs
                j2.kf = [k]
                j2.is_full = True
                jobs.append(j2)
                if not f.unwind:
                    loops[j2.name] = f.loops
        for lem in unit.lemmas:
            if prop not in lem.props:
                continue
            j = driver.Job(uname, lem.name, "h_" + lem.name, None, lem.replace, [gen_c, har_c], [], props=lem.props, kind="lemma", unwind=lem.unwind)
            j.incdirs = [os.path.join(VERIF, "rt"), udir, ud]
            j.kf = []
            jobs.append(j)
    if a.only:
        jobs = [j for j in jobs if re.search(a.only, j.name)]
    backends = ("cadical", "kissat") if a.tier == "quick" else ("cadical", "kissat", "minisat")
    timeout = 900 if a.tier == "quick" else 1800   # generous: a job that needs 4 minutes under load must not turn into exit 2
    # all jobs share incdirs per unit
    by_inc = {}
    for j in jobs:
        by_inc.setdefault(tuple(j.incdirs), []).append(j)
    for inc, js in by_inc.items():
        driver.run_jobs(js, bdir, backends=backends, timeout=timeout, incdirs=inc, loops=loops)
    if a.tier == "thorough":
        # second back end re-discharges every obligation; disagreement is undecided
        import copy
        second = []
        for j in jobs:
            if j.status in ("ok", "failed") and not getattr(j, "is_full", False):    # region jobs of known findings are not re-discharged
                k = driver.Job(j.unit, j.name + "#2", j.entry, j.enforce, j.replace, j.files, j.defines, rec=j.rec, props=j.props, kind=j.kind, unwind=j.unwind)
                k.incdirs, k.kf, k.first = j.incdirs, j.kf, j
                k.contract, k.timeout, k.unwind_fns = getattr(j, "contract", None), getattr(j, "timeout", None), getattr(j, "unwind_fns", None)
                if getattr(j, "is_full", False):
                    k.is_full = True
                second.append(k)
        by_inc = {}
        for j in second:
            by_inc.setdefault(tuple(j.incdirs), []).append(j)
        for inc, js in by_inc.items():
            driver.run_jobs(js, bdir, backends=("kissat", "minisat"), timeout=min(timeout, 300), incdirs=inc,
                            loops={k.name: loops.get(k.first.name, ()) for k in js})
        for k in second:
            j = k.first
            j.second_backend = k.backend
            j.second_seconds = k.seconds
            if k.status != j.status:
                if k.status == "undecided":
                    j.second_note = "second back end undecided: " + k.reason
                else:
                    undecided.append("back ends disagree on %s: %s=%s %s=%s" % (j.name, j.backend, j.status, k.backend, k.status))

    crosschecks = []
    sweep_failed = []
    if a.tier == "thorough":
        # bounded cross-check on the REAL code (never counted as proof): the unit's native small-universe sweep
        for uname in UNITS_OF[prop]:
            hook = replay.unit_hook(uname)
            if hook is not None and getattr(hook, "THOROUGH_SWEEP", False):
                dev, detail = hook.native_sweep("thorough", bdir)
                crosschecks.append({"unit": uname, "kind": "bounded", "what": getattr(hook, "SWEEP_BOUND", "native small-universe sweep of the real code"),
                                    "deviation_found": bool(dev), "detail": detail})
                if "build_error" in detail or detail.get("exit") in (-9, 2):
                    undecided.append("native sweep of %s did not run: %s" % (uname, str(detail)[:300]))
                elif dev:
                    sweep_failed.append((uname, detail))
    violations = []
    known_lines = []
    for j in jobs:
        if getattr(j, "auto_unwind", False) and j.status == "failed" and all("unwind" in r["name"] for r in j.failed):
            j.status, j.reason = "undecided", "a loop without a loop contract needs more than %d iterations (bound of the automatic unwinding)" % AUTO_UNWIND
        flt = getattr(j, "only_for", {}).get(prop)
        if flt and j.status == "failed":
            # this function is evidence for the property only through some of its obligations (e.g. its frame condition):
            # a failure of the others is reported by the checks of the properties they belong to, not here
            kept = [r for r in j.failed if re.search(flt, r["name"])]
            j.other_failed = [r["name"] for r in j.failed if not re.search(flt, r["name"])]
            j.failed = kept
            if not kept:
                j.status, j.reason = "ok", "obligations outside this property's share failed: " + ", ".join(j.other_failed)[:200]
        if a.v:
            print("  job %-28s %-9s %5.1fs %s %s" % (j.name, j.status, j.seconds, j.backend, j.reason[:300]))
        if j.status == "undecided":
            undecided.append("%s: %s" % (j.name, j.reason))
        elif j.status == "failed":
            if getattr(j, "is_full", False):
                # failure inside a listed region (the exclude-mode twin decides everything outside it)
                for k in j.kf:
                    line = "KNOWN-FINDING: property=%s %s [%s: %s]" % (prop, k["what"], k["name"], ", ".join(sorted(set(obligation_label(j, r, tags_by_unit[j.unit]) for r in j.failed)))[:300])
                    if prop in k.get("properties", []) and line not in known_lines:
                        known_lines.append(line)
            else:
                violations.append(j)
    for l in known_lines:
        print(l)
    rc = 0
    replay_paths = []
    if violations:
        os.makedirs(os.path.join(VERIF, "replays"), exist_ok=True)
        for j in violations:
            labels = [obligation_label(j, r, tags_by_unit[j.unit]) for r in j.failed]
            path, reproduced = replay.triage(prop, j, labels, bdir, tags_by_unit[j.unit])
            replay_paths.append(path)
            suffix = "" if reproduced else " no-failing-input-found"
            print("VIOLATION property=%s replay=%s%s" % (prop, path, suffix))
            print("  failed obligations of %s: %s" % (j.name, ", ".join(labels)[:600]))
        rc = 1
    if undecided and rc == 0:
        seen = set()
        for u in undecided:
            key = u.split(": ", 1)[-1][:200]
            if key in seen or len(seen) >= 6:
                continue
            seen.add(key)
            print("UNDECIDED property=%s reason=%s" % (prop, u.replace("\n", " ")[:900]))
        rc = 2
    for uname, detail in sweep_failed:
        os.makedirs(os.path.join(VERIF, "replays"), exist_ok=True)
        path = os.path.join(VERIF, "replays", "%s_%s_native_sweep.json" % (prop, uname))
        json.dump({"property": prop, "unit": uname, "job": "native sweep (bounded cross-check of the real code)", "reproduced_on_real_code": True,
                   "native_sweep": detail, "verdict": "the real library deviates from the reference written from the property text on the printed input"}, open(path, "w"), indent=1)
        print("VIOLATION property=%s replay=%s" % (prop, path))
        rc = 1
    write_evidence(prop, a.tier, seed, t0, jobs, units, tags_by_unit, undecided=undecided,
                   violations=len(violations) + len(sweep_failed), known_lines=known_lines, src=src, crosschecks=crosschecks)
    if rc == 0:
        n = sum(len(getattr(j, "obligations", [])) for j in jobs if not getattr(j, "is_full", False))
        print("OK property=%s tier=%s functions=%d obligations=%d all discharged (%.0fs)" % (
            prop, a.tier, len([j for j in jobs if j.kind == "function" and not getattr(j, "is_full", False)]), n, time.time() - t0))
    return rc


def write_evidence(prop, tier, seed, t0, jobs, units, tags, undecided=(), violations=0, known_lines=(), src=None, crosschecks=()):
    os.makedirs(os.path.join(VERIF, "evidence"), exist_ok=True)
    main_jobs = [j for j in jobs if not getattr(j, "is_full", False)]
    obligations = sum(len(getattr(j, "obligations", [])) for j in main_jobs)
    discharged = sum(len([r for r in getattr(j, "obligations", []) if r["status"] == "SUCCESS"]) for j in main_jobs)
    samples = []
    for j in main_jobs[:400]:
        for r in getattr(j, "obligations", []):
            if ".postcondition" in r["name"] and len(samples) < 12 and tags:
                lab = obligation_label(j, r, tags.get(j.unit, {}))
                if lab != r["name"]:
                    samples.append({"function": j.name, "obligation": lab, "status": r["status"], "backend": j.backend})
    trusted = []
    facts = []
    fired = {}
    for u in units:
        trusted += u.trusted
        facts += u.static_facts
        for k, v in u.fired.items():
            fired[k] = fired.get(k, 0) + v
    scan = scan_assumptions([os.path.join(VERIF, "rt", "nitro_rt.h")] + [os.path.join(VERIF, "units", u.name, f) for u in units for f in ("contracts.h", "lemmas.c")])
    per_fn = []
    for j in main_jobs:
        per_fn.append({"job": j.name, "kind": j.kind, "unit": j.unit, "status": j.status, "backend": j.backend,
                       "seconds": round(j.seconds, 2), "obligations": len(getattr(j, "obligations", [])),
                       "discharged": len([r for r in getattr(j, "obligations", []) if r["status"] == "SUCCESS"]),
                       "replaced_callee_contracts": j.replace,
                       "unwind": (("loops unwound %d times with unwinding assertions (bounded by the declaration model)" % j.unwind) if j.unwind else "no: loop contracts / loop-free"),
                       "contract": getattr(j, "contract", None) or j.enforce,
                       "canaries_reached": [c["desc"] for c in getattr(j, "canaries", []) if c["status"] == "FAILURE"],
                       **({"second_backend": j.second_backend} if hasattr(j, "second_backend") else {})})
    cmd = ""
    for j in main_jobs:
        if j.cmds:
            cmd = " && ".join(c.replace(VERIF, "/verif") for c in j.cmds[:3])
            break
    ev = {
        "property_id": prop, "tier": tier if tier in ("quick", "thorough") else "quick", "seed": seed,
        "level": LEVEL_OF.get(prop, "proof"),
        "coverage": {
            "obligations": obligations, "discharged": discharged,
            "checker_cmd": cmd or "goto-cc | goto-instrument --dfcc | cbmc (no job ran)",
            "trusted_base": trusted + ["CBMC 6.11.0, goto-instrument DFCC, SAT back ends (cadical, kissat, minisat)"],
            "explanation": "CBMC code contracts enforced per function with goto-instrument --dfcc on C text extracted mechanically from /repo on this run; loops closed by loop contracts - except jobs marked 'unwind': their loops run over a declared bound (array size of the declaration model, NITRO_K/NITRO_G/NITRO_NARGS) and are unwound completely with --unwinding-assertions; callees replaced by their contracts; lemma harnesses connect function contracts to the property statement.",
            "functions_under_contract": [j.name for j in main_jobs if j.kind == "function"],
            "lemma_harnesses": [j.name for j in main_jobs if j.kind == "lemma"],
            "jobs": per_fn,
            "samples": samples or [{"note": "no obligations"}],
            "extraction_rules_fired": fired,
            "source_digests": (src.digests if src else {}),
            "assumption_scan": scan,
            "static_facts": facts,
            "bounded_crosschecks": list(crosschecks),
            "known_findings_reported": list(known_lines),
            "undecided": list(undecided),
            "solver_seconds_total": round(sum(j.seconds for j in jobs), 1),
        },
        "assumptions": trusted + ["bit-precise machine arithmetic; unsigned wrap-around permitted as in C++",
                                  "extraction drops what DESIGN.md section 3.2 lists (D1-D10)"] + scan,
        "wall_s": round(time.time() - t0, 2),
        "violations": violations,
    }
    json.dump(ev, open(os.path.join(VERIF, "evidence", prop + ".json"), "w"), indent=1)


if __name__ == "__main__":
    sys.exit(main())
