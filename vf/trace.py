"""Reading CBMC JSON traces: user-level assignments of a failing property."""
import json


def load_results(text):
    data = json.loads(text)
    for item in data:
        if "result" in item:
            return item["result"]
    return []


def user_steps(trace):
    out = []
    for st in trace:
        if st.get("stepType") != "assignment" or st.get("hidden"):
            continue
        loc = st.get("sourceLocation", {})
        fn = loc.get("function", "")
        if fn.startswith("__CPROVER") or loc.get("file", "").startswith("<builtin"):
            continue
        lhs = st.get("lhs", "")
        val = st.get("value", {})
        v = val.get("data", val.get("name", ""))
        out.append((fn, loc.get("line", ""), lhs, v))
    return out


def recorded_inputs(trace, names):
    """values of g_in[i] (the NITRO_REC slots), last assignment wins"""
    vals = {}
    for st in trace:
        if st.get("stepType") != "assignment":
            continue
        lhs = st.get("lhs", "")
        if lhs.startswith("g_in["):
            try:
                i = int(lhs[5:lhs.index("]")].rstrip("lLuU"))
                vals[i] = st.get("value", {}).get("data")
            except Exception:
                pass
        elif lhs in ("g_w", "g_n", "g_k"):
            vals[lhs] = st.get("value", {}).get("data")
    res = {}
    for i, n in enumerate(names):
        if i in vals:
            res[n] = vals[i]
    for k in ("g_w", "g_n", "g_k"):
        if k in vals:
            res[k] = vals[k]
    return res


if __name__ == "__main__":
    import sys
    rs = load_results(open(sys.argv[1]).read())
    for r in rs:
        if r.get("status") == "FAILURE" and "trace" in r and (len(sys.argv) < 3 or sys.argv[2] in r["property"]):
            print("==", r["property"], r["description"])
            for s in user_steps(r["trace"]):
                print("   %s:%s  %s = %s" % s)
