"""Runs the CBMC contract pipeline for a set of jobs and interprets the result."""
import concurrent.futures as cf
import json
import os
import re
import resource
import shutil
import signal
import subprocess
import time

VERIF = os.path.dirname(os.path.dirname(os.path.abspath(__file__)))

CBMC_CHECKS = ["--bounds-check", "--pointer-check", "--pointer-overflow-check",
               "--signed-overflow-check", "--conversion-check", "--div-by-zero-check",
               "--no-pointer-primitive-check"]
OBJECT_BITS = "12"
MEM_KB = 30 * 1024 * 1024


def _limits():
    resource.setrlimit(resource.RLIMIT_AS, (MEM_KB * 1024, MEM_KB * 1024))


def run(cmd, timeout, cwd=None, tmpdir=None):
    """runs cmd in its own process group (an external SAT solver started by cbmc dies with it on a timeout) with TMPDIR pointing
    into the build directory of the run (cbmc's multi-gigabyte external-sat*.cnf files are removed with it)"""
    t0 = time.time()
    env = dict(os.environ)
    if tmpdir:
        os.makedirs(tmpdir, exist_ok=True)
        env["TMPDIR"] = tmpdir
    p = subprocess.Popen(cmd, stdout=subprocess.PIPE, stderr=subprocess.PIPE, cwd=cwd, preexec_fn=_limits, text=True, errors="replace",
                         env=env, start_new_session=True)
    try:
        out, err = p.communicate(timeout=timeout)
        return p.returncode, out, err, time.time() - t0
    except subprocess.TimeoutExpired:
        try:
            os.killpg(p.pid, signal.SIGKILL)
        except OSError:
            pass
        out, err = p.communicate()
        return -9, out or "", "TIMEOUT", time.time() - t0
    finally:
        if tmpdir:
            for f in os.listdir(tmpdir):
                if f.startswith("external-sat"):
                    try:
                        os.remove(os.path.join(tmpdir, f))
                    except OSError:
                        pass


class Job:
    """One DFCC run: enforce the contract of `fn` (or none, for a lemma harness) with callees
    replaced by their contracts."""

    def __init__(self, unit, name, entry, enforce, replace, files, defines=(), rec=False,
                 props=(), kind="function", unwind=None, tags=None):
        self.unit, self.name, self.entry, self.enforce = unit, name, entry, enforce
        self.replace, self.files, self.defines, self.rec = list(replace), list(files), list(defines), rec
        self.props, self.kind, self.unwind = list(props), kind, unwind
        self.tags = tags or {}
        self.results = []      # list of dict(name, desc, status, line, file, tag)
        self.status = None     # 'ok' | 'failed' | 'undecided'
        self.reason = ""
        self.seconds = 0.0
        self.backend = ""
        self.cmds = []
        self.raw = ""


def solver_flags(backend):
    if backend == "cadical":
        return ["--sat-solver", "cadical"]
    if backend == "minisat":
        return []
    if backend == "kissat":
        return ["--external-sat-solver", "kissat"]
    if backend == "cvc5":
        return ["--cvc5"]
    if backend == "z3":
        return ["--z3"]
    raise ValueError(backend)


def run_job(job, bdir, backends=("cadical",), timeout=300, trace=False, incdirs=()):
    os.makedirs(bdir, exist_ok=True)
    t0 = time.time()
    gb1 = os.path.join(bdir, job.name + ".1.gb")
    gb2 = os.path.join(bdir, job.name + ".2.gb")
    inc = []
    for d in incdirs:
        inc += ["-I", d]
    cmd = ["goto-cc", "-DNITRO_VERIF_CBMC"] + ["-D" + d for d in job.defines] + inc + \
          ["--function", job.entry] + job.files + ["-o", gb1]
    job.cmds.append(" ".join(cmd))
    rc, out, err, _ = run(cmd, 120)
    if rc != 0:
        job.status, job.reason = "undecided", "residue gate: goto-cc rejected the extracted C: " + (err + out).strip()[-1500:]
        job.seconds = time.time() - t0
        return job
    cmd = ["goto-instrument", "--dfcc", job.entry]
    if job.enforce:
        cmd += ["--enforce-contract-rec" if job.rec else "--enforce-contract",
                job.enforce + ("/" + job.contract if getattr(job, "contract", None) else "")]
    for r in job.replace:
        cmd += ["--replace-call-with-contract", r]
    if not (job.unwind and job.kind == "function"):
        cmd += ["--apply-loop-contracts"]
    cmd += [gb1, gb2]
    job.cmds.append(" ".join(cmd))
    rc, out, err, _ = run(cmd, 300)
    if rc != 0:
        job.status, job.reason = "undecided", "goto-instrument failed: " + (err + out).strip()[-1500:]
        job.seconds = time.time() - t0
        return job
    for backend in backends:
        cmd = ["cbmc", gb2, "--object-bits", OBJECT_BITS] + CBMC_CHECKS + solver_flags(backend) + ["--json-ui"]
        if job.unwind:
            # complete unwinding of the loops of the function under contract only (their trip count is bounded by a
            # declared array size); the loops of the DFCC library keep cbmc's own handling
            rc0, out0, _, _ = run(["cbmc", gb2, "--show-loops"], 120)
            ids = re.findall(r"^Loop (\S+):", out0, re.M)
            names = ([job.enforce] if job.enforce else []) + list(getattr(job, "unwind_fns", []) or [])
            mine = [i for i in ids if any(i.startswith(n + ".") or i.startswith(n + "_wrapped_for_contract_checking.") for n in names)]
            if job.kind == "lemma":
                mine = [i for i in ids if not i.startswith("__CPROVER")]
            if mine:
                cmd += ["--unwindset", ",".join("%s:%d" % (i, job.unwind) for i in mine), "--unwinding-assertions"]
        if trace:
            cmd += ["--trace"]
        job.cmds.append(" ".join(cmd))
        rc, out, err, secs = run(cmd, max(timeout, getattr(job, "timeout", 0) or 0), tmpdir=os.path.join(bdir, "tmp"))
        job.backend = backend
        if rc == -9:
            job.status, job.reason = "undecided", "timeout after %ds on %s" % (timeout, backend)
            continue
        try:
            data = json.loads(out)
        except Exception:
            job.status, job.reason = "undecided", "cbmc output not parseable (rc=%s): %s" % (rc, (out + err)[-800:])
            continue
        results = None
        msgs = []
        for item in data:
            if "result" in item:
                results = item["result"]
            if item.get("messageType") in ("ERROR", "WARNING"):
                msgs.append(item.get("messageText", ""))
        if results is None:
            job.status, job.reason = "undecided", "cbmc gave no result (rc=%s): %s" % (rc, " | ".join(msgs)[-800:])
            continue
        if any("ignoring" in m for m in msgs):
            job.status, job.reason = "undecided", "solver ignored a quantifier: " + " | ".join(msgs)[-400:]
            continue
        job.results = []
        for r in results:
            loc = r.get("sourceLocation", {})
            ent = {"name": r.get("property", ""), "desc": r.get("description", ""),
                   "status": r.get("status", ""), "file": loc.get("file", ""),
                   "line": int(loc.get("line", 0) or 0), "function": loc.get("function", "")}
            if trace and "trace" in r:
                ent["trace"] = r["trace"]
            job.results.append(ent)
        job.status = "done"
        break
    job.seconds = time.time() - t0
    return job


def classify(job, loops_expected=()):
    """turn raw results into ok / failed / undecided, checking canaries and loop-contract presence."""
    if job.status != "done":
        return
    # MUSTFAIL obligations: an existential claim proved by refuting its universal negation; the verdict is inverted
    for r in job.results:
        if r["desc"].startswith("MUSTFAIL") and not r.get("inverted"):
            r["inverted"] = True
            r["status"] = {"FAILURE": "SUCCESS", "SUCCESS": "FAILURE"}.get(r["status"], r["status"])
    canaries = [r for r in job.results if r["desc"].startswith("CANARY")]
    others = [r for r in job.results if not r["desc"].startswith("CANARY")]
    job.canaries = canaries
    job.obligations = others
    bad_status = [r for r in others if r["status"] not in ("SUCCESS", "FAILURE")]
    if bad_status and not any(r["status"] == "FAILURE" for r in others):
        job.status, job.reason = "undecided", "obligation with status %s: %s" % (bad_status[0]["status"], bad_status[0]["name"])
        return
    if not others:
        job.status, job.reason = "undecided", "vacuous: zero obligations generated"
        return
    if job.kind == "function":
        if not any(".postcondition" in r["name"] for r in others):
            job.status, job.reason = "undecided", "no postcondition obligation was generated for " + job.name
            return
    names = " ".join(r["name"] for r in others)
    nloops = len(loops_expected)
    if nloops:
        steps = len(set(re.findall(r"loop_invariant_step\.\d+", names))) + len(re.findall(r"loop_step", names))
        if "loop_invariant_step" not in names and "loop_invariant_base" not in names:
            job.status, job.reason = "undecided", "loop contract silently dropped in " + job.name
            return
    if not canaries:
        job.status, job.reason = "undecided", "harness has no vacuity canary"
        return
    live = [c for c in canaries if c["status"] == "FAILURE"]
    if not live:
        job.status, job.reason = "undecided", "vacuous: no canary reachable (contradictory precondition?)"
        return
    job.dead_canaries = [c["desc"] for c in canaries if c["status"] != "FAILURE"]
    failed = [r for r in others if r["status"] == "FAILURE"]
    job.failed = failed
    job.status = "failed" if failed else "ok"


def run_jobs(jobs, bdir, backends=("cadical", "kissat"), timeout=300, workers=None, incdirs=(), loops=None):
    workers = workers or min(16, os.cpu_count() or 4)
    loops = loops or {}
    with cf.ThreadPoolExecutor(max_workers=workers) as ex:
        futs = {ex.submit(run_job, j, os.path.join(bdir, j.name), backends, timeout, False, incdirs): j for j in jobs}
        for fu in cf.as_completed(futs):
            j = futs[fu]
            try:
                fu.result()
            except Exception as e:  # tool crash
                j.status, j.reason = "undecided", "driver exception: %r" % (e,)
            classify(j, loops.get(j.name, ()))
    return jobs
