"""Triage ladder (DESIGN.md 3.5): failed obligation -> counterexample -> native replay on the real code."""
import hashlib
import importlib.util
import json
import os
import subprocess
import time

from . import driver, trace
from .extract import REPO

VERIF = driver.VERIF


def unit_hook(unit):
    p = os.path.join(VERIF, "units", unit, "replay.py")
    if not os.path.exists(p):
        return None
    spec = importlib.util.spec_from_file_location("replay_" + unit, p)
    m = importlib.util.module_from_spec(spec)
    spec.loader.exec_module(m)
    return m


def counterexample(job, bdir):
    """re-run the failed job with --trace under the small-model switch (NITRO_SMALL keeps the
    counterexample replayable natively); returns (recorded inputs, user-level trace lines, failing names)"""
    j = driver.Job(job.unit, job.name.replace("@", "_").replace("+", "_") + "_trace", job.entry, job.enforce, job.replace, job.files,
                   list(job.defines) + ["NITRO_SMALL=1"], rec=job.rec, props=job.props, kind=job.kind, unwind=job.unwind)
    driver.run_job(j, os.path.join(bdir, j.name), backends=("cadical",), timeout=300, trace=True, incdirs=job.incdirs)
    if j.status != "done":
        return None, [], [], "trace run undecided: " + j.reason
    inputs, lines, names = None, [], []
    for r in j.results:
        if r["status"] == "FAILURE" and not r["desc"].startswith("CANARY"):
            names.append(r["name"])
            if "trace" in r and inputs is None:
                inputs = trace.recorded_inputs(r["trace"], [])
                raw = {}
                for st in r["trace"]:
                    if st.get("stepType") == "assignment" and str(st.get("lhs", "")).startswith("g_in["):
                        try:
                            idx = int(st["lhs"][5:st["lhs"].index("]")].rstrip("lLuU"))
                            raw[idx] = st.get("value", {}).get("data")
                        except Exception:
                            pass
                inputs["g_in"] = [raw.get(i) for i in range(16)]
                lines = ["%s:%s %s = %s" % s for s in trace.user_steps(r["trace"])
                         if not s[2].startswith(("g_in", "i_", "__", "return_value_nondet"))][-60:]
    if not names:
        return None, [], [], "no obligation fails under NITRO_SMALL (the failure needs large sizes)"
    return inputs, lines, names, ""


def triage(prop, job, labels, bdir, tags):
    t0 = time.time()
    os.makedirs(os.path.join(VERIF, "replays"), exist_ok=True)
    rec = {"property": prop, "unit": job.unit, "job": job.name, "failed_obligations": labels,
           "verifier": {"backend": job.backend, "commands": [c.replace(VERIF, "/verif") for c in job.cmds],
                        "failed": [{"name": r["name"], "description": r["desc"], "location": "%s:%s" % (os.path.basename(r["file"]), r["line"])}
                                   for r in getattr(job, "failed", [])][:40]},
           "reproduced_on_real_code": False}
    reproduced = False
    hook = unit_hook(job.unit)
    try:
        inputs, lines, names, note = counterexample(job, bdir)
    except Exception as e:  # never let the triage hide the violation
        inputs, lines, names, note = None, [], [], "trace extraction failed: %r" % (e,)
    rec["counterexample"] = {"inputs": inputs, "trace_tail": lines, "failing_under_small_model": names, "note": note}
    if hook is not None:
        try:
            if inputs:
                ok, detail = hook.native_replay(job.name.split("@")[0].split("+")[0], inputs, bdir)
                rec["native_replay_of_counterexample"] = detail
                reproduced = ok
            if not reproduced:
                ok, detail = hook.native_sweep(job.name.split("@")[0].split("+")[0], bdir)
                rec["native_sweep"] = detail
                reproduced = ok
        except Exception as e:
            rec["native_error"] = repr(e)
    else:
        rec["native_replay_of_counterexample"] = "no native replay harness for unit " + job.unit
    rec["reproduced_on_real_code"] = reproduced
    if not reproduced:
        rec["verdict"] = ("no-failing-input-found: the obligation(s) above were discharged on the unchanged tree and fail now; "
                          "the verifier output is attached")
    rec["seconds"] = round(time.time() - t0, 1)
    h = hashlib.sha256(json.dumps([prop, job.name, labels]).encode()).hexdigest()[:10]
    path = os.path.join(VERIF, "replays", "%s_%s_%s.json" % (prop, job.name.replace("@", "_").replace("+", "_"), h))
    json.dump(rec, open(path, "w"), indent=1)
    return path, reproduced


def replay_file(path):
    rec = json.load(open(path))
    print("replay of %s: property=%s job=%s" % (path, rec.get("property"), rec.get("job")))
    print("failed obligations: " + ", ".join(rec.get("failed_obligations", []))[:800])
    hook = unit_hook(rec.get("unit", ""))
    bdir = os.path.join(VERIF, "build", "replay_%d" % os.getpid())
    os.makedirs(bdir, exist_ok=True)
    try:
        if hook is None:
            print("no native replay harness for this unit; verifier output is in the file")
            return 0
        ce = rec.get("counterexample", {}).get("inputs")
        ok = False
        if ce:
            ok, detail = hook.native_replay(rec["job"].split("@")[0].split("+")[0], ce, bdir)
            print(json.dumps(detail)[:1500])
        if not ok:
            ok, detail = hook.native_sweep(rec["job"].split("@")[0].split("+")[0], bdir)
            print(json.dumps(detail)[:1500])
        print("REPRODUCED on the real code" if ok else "not reproduced on the current tree")
        return 1 if ok else 0
    finally:
        import shutil
        shutil.rmtree(bdir, ignore_errors=True)


def build_native(src_cpp, out, extra=()):
    cmd = ["g++", "-std=c++17", "-O1", "-I", os.path.join(REPO, "include"), src_cpp, "-o", out] + list(extra)
    p = subprocess.run(cmd, stdout=subprocess.PIPE, stderr=subprocess.STDOUT, text=True, timeout=600)
    return p.returncode, p.stdout[-3000:]


def run_native(cmd, timeout=120):
    try:
        p = subprocess.run(cmd, stdout=subprocess.PIPE, stderr=subprocess.STDOUT, text=True, timeout=timeout)
        return p.returncode, p.stdout[-3000:]
    except subprocess.TimeoutExpired:
        return -9, "TIMEOUT after %ds" % timeout
