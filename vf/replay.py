def triage(prop, job, labels, bdir, tags):
    return "/verif/replays/none.json", False
def replay_file(p):
    return 0
